//! C12: arbitrary bytes presented as a complete message.  Every call of the public read API runs
//! under catch_unwind; the outcome of each is ok | err | panic (a panic is data, not a tool failure).
//!
//! Case: {"id":n,"cls":"..","bytes":[..],"nfds":k,"ctx_le":bool}   (ctx_le: byte order of the
//! serialization context handed to from_bytes; the socket code derives it from the first byte).
use crate::absmsg::*;
use crate::mk;
use crate::model::*;
use serde_json::{json, Value as J};
use std::io::{BufRead, Write};
use std::os::fd::OwnedFd;
use std::panic::AssertUnwindSafe;
use zbus::message::Message;
use zvariant::serialized::{Context, Data};
use zvariant::{Endian, Structure};

fn null_fds(n: usize) -> Vec<OwnedFd> {
    (0..n)
        .map(|_| OwnedFd::from(std::fs::File::open("/dev/null").unwrap()))
        .collect()
}

struct Calls {
    map: serde_json::Map<String, J>,
    panics: Vec<J>,
}
impl Calls {
    /// Run one call; Some(value) when it returned.
    fn run<T>(&mut self, name: &str, f: impl FnOnce() -> Result<T, String>) -> Option<T> {
        match guarded(AssertUnwindSafe(f)) {
            Ok(Ok(v)) => {
                self.map.insert(name.into(), json!("ok"));
                Some(v)
            }
            Ok(Err(_e)) => {
                self.map.insert(name.into(), json!("err"));
                None
            }
            Err(p) => {
                self.map.insert(name.into(), json!("panic"));
                self.panics.push(json!({"call":name,"msg":p}));
                None
            }
        }
    }
}

fn write_cur(path: &str, case: &J) {
    // the orchestrator reads this when the process dies inside the case (abort / stack overflow)
    let _ = std::fs::write(path, serde_json::to_string(case).unwrap());
}

pub fn observe_hostile(case: &J, diag: bool) -> J {
    let bytes = bytes_of(&case["bytes"]);
    let nfds = case["nfds"].as_u64().unwrap_or(0) as usize;
    let ctx_le = case["ctx_le"].as_bool().unwrap_or_else(|| bytes.first() != Some(&b'B'));
    let e = if ctx_le { Endian::Little } else { Endian::Big };
    let mut c = Calls { map: Default::default(), panics: vec![] };
    let data = Data::new_fds(bytes, Context::new_dbus(e, 0), null_fds(nfds));
    let mut parsed = J::Null;
    // SAFETY (harness): feeding arbitrary bytes is the purpose
    let msg = c.run("parse", move || unsafe { Message::from_bytes(data) }.map_err(|e| e.to_string()));
    if let Some(m) = msg {
        c.run("primary", || {
            let p = m.primary_header();
            let _ = (p.msg_type(), p.flags(), p.body_len(), p.serial_num(), p.endian_sig(), p.protocol_version());
            let _ = m.message_type();
            let _ = m.recv_position();
            Ok(())
        });
        c.run("header", || {
            let h = m.header();
            let _ = (h.message_type(), h.path().map(|x| x.as_str().len()), h.interface().map(|x| x.len()));
            let _ = (h.member().map(|x| x.len()), h.error_name().map(|x| x.len()), h.reply_serial());
            let _ = (h.destination().map(|x| x.len()), h.sender().map(|x| x.len()), h.unix_fds());
            let _ = h.signature().to_string();
            Ok(())
        });
        c.run("header_debug", || Ok(format!("{:?}", m.header()).len()));
        c.run("body", || {
            let b = m.body();
            let _ = (b.len(), b.is_empty(), b.data().bytes().len(), b.message().data().len());
            Ok(())
        });
        c.run("body_sig", || Ok(m.body().signature().to_string().len()));
        c.run("body_de", || {
            let b = m.body();
            let r: Result<Structure<'_>, _> = b.deserialize();
            r.map(|s| format!("{:?}", s).len()).map_err(|e| e.to_string())
        });
        c.run("body_str", || {
            let b = m.body();
            let r: Result<&str, _> = b.deserialize();
            r.map(|s| s.len()).map_err(|e| e.to_string())
        });
        c.run("body_unchecked", || {
            let b = m.body();
            let r: Result<zvariant::Value<'_>, _> = b.deserialize_unchecked();
            r.map(|s| format!("{:?}", s).len()).map_err(|e| e.to_string())
        });
        c.run("display", || Ok(format!("{}", m).len()));
        c.run("debug", || Ok(format!("{:?}", m).len()));
        if c.panics.is_empty() {
            // what the implementation makes of an input it accepts (diagnostic: leniency)
            if let Ok(a) = guarded(AssertUnwindSafe(|| abstract_header(&m.header()))) {
                parsed = a;
            }
        }
        c.run("drop", move || {
            drop(m);
            Ok(())
        });
    }
    let mut o = json!({"ev":"Hostile","id":case["id"],"cls":case["cls"],"bytes":case["bytes"],"nfds":nfds,"ctx_le":ctx_le,
           "diag":diag,"calls":c.map,"panics":c.panics});
    if !parsed.is_null() {
        o["parsed"] = parsed; // (TLC's JSON reader has no null)
    }
    o
}

/// obs-hostile <cases> <out> [start]  -- appends to <out> when start > 0 (restart after an abort).
/// Cases run in a worker thread with a fixed 8 MiB stack; a stack overflow / abort kills the process,
/// which the orchestrator sees (the culprit is the first case without an output line).
pub fn cmd_obs_hostile(args: &[String]) {
    let start: usize = args.get(2).map(|s| s.parse().unwrap()).unwrap_or(0);
    let (a0, a1) = (args[0].clone(), args[1].clone());
    let h = std::thread::Builder::new()
        .stack_size(8 << 20)
        .spawn(move || {
            let inp = std::io::BufReader::new(std::fs::File::open(&a0).expect("open cases"));
            let f = std::fs::OpenOptions::new()
                .create(true)
                .append(start > 0)
                .write(true)
                .truncate(start == 0)
                .open(&a1)
                .expect("open out");
            let mut w = std::io::LineWriter::new(f);
            let cur = format!("{}.cur", a1);
            for (i, line) in inp.lines().enumerate() {
                let line = line.unwrap();
                if i < start || line.trim().is_empty() {
                    continue;
                }
                let case: J = serde_json::from_str(&line).expect("case json");
                write_cur(&cur, &case);
                let o = observe_hostile(&case, true);
                writeln!(w, "{}", serde_json::to_string(&o).unwrap()).unwrap();
            }
        })
        .unwrap();
    h.join().expect("worker");
}

// ---------------------------------------------------------------- random corpus (seeded)
const EDGE32: &[u32] = &[0, 1, 7, 8, 9, 0x7f, 0x80, 0xff, 0x100, 0xffff, 0x10000, 0x3ff_ffff, 0x400_0000, 0x400_0001,
    0x7ff_ffff, 0x800_0000, 0x800_0001, 0x7fff_ffff, 0x8000_0000, 0xffff_fff8, 0xffff_ffff];

fn mutate(r: &mut Rng, b: &mut Vec<u8>, other: &[u8]) {
    if b.is_empty() {
        b.push(r.next() as u8);
        return;
    }
    match r.below(8) {
        0 => {
            let i = r.below(b.len() as u64) as usize;
            b[i] = r.next() as u8;
        }
        1 => {
            let i = r.below(b.len() as u64) as usize;
            b[i] ^= 1 << r.below(8);
        }
        2 => {
            // overwrite an aligned u32 with an edge value (either byte order)
            if b.len() >= 4 {
                let i = (r.below(b.len() as u64 / 4) * 4) as usize;
                let v = *r.pick(EDGE32);
                let w = if r.chance(1, 2) { v.to_le_bytes() } else { v.to_be_bytes() };
                b[i..i + 4].copy_from_slice(&w);
            }
        }
        3 => {
            let n = r.below(b.len() as u64 + 1) as usize;
            b.truncate(n);
        }
        4 => {
            let i = r.below(b.len() as u64 + 1) as usize;
            let n = 1 + r.below(8) as usize;
            for _ in 0..n {
                b.insert(i, r.next() as u8);
            }
        }
        5 => {
            let i = r.below(b.len() as u64) as usize;
            let n = (1 + r.below(8) as usize).min(b.len() - i);
            b.drain(i..i + n);
        }
        6 => {
            // splice a chunk of another message
            if !other.is_empty() {
                let s = r.below(other.len() as u64) as usize;
                let n = (1 + r.below(24) as usize).min(other.len() - s);
                let i = r.below(b.len() as u64) as usize;
                for (k, x) in other[s..s + n].iter().enumerate() {
                    if i + k < b.len() {
                        b[i + k] = *x;
                    } else {
                        b.push(*x);
                    }
                }
            }
        }
        _ => {
            // adjust a single byte by a small delta (length fields)
            let i = r.below(b.len() as u64) as usize;
            let d = *r.pick(&[1i16, -1, 8, -8, 4, -4]);
            b[i] = (b[i] as i16 + d) as u8;
        }
    }
}

fn built(r: &mut Rng) -> (Vec<u8>, usize) {
    for _ in 0..20 {
        let case = mk::rand_case(r, 0);
        let mut pool = FdPool::new();
        if let Ok(Ok(m)) = guarded(AssertUnwindSafe(|| mk::build_message(&case, &mut pool))) {
            return (m.data().bytes().to_vec(), m.data().fds().len());
        }
    }
    (vec![], 0)
}

/// rand-hostile <n> <seed> <out> [start]  -- cases before `start` are generated but not run (restart)
pub fn cmd_rand_hostile(args: &[String]) {
    let n: u64 = args[0].parse().unwrap();
    let seed: u64 = args[1].parse().unwrap();
    let out = args[2].clone();
    let start: u64 = args.get(3).map(|s| s.parse().unwrap()).unwrap_or(0);
    let h = std::thread::Builder::new()
        .stack_size(8 << 20)
        .spawn(move || {
            let f = std::fs::OpenOptions::new()
                .create(true)
                .append(start > 0)
                .write(true)
                .truncate(start == 0)
                .open(&out)
                .expect("open out");
            let mut w = std::io::LineWriter::new(f);
            let cur = format!("{}.cur", out);
            let mut r = Rng(seed.wrapping_mul(0x2545F491).wrapping_add(5));
            for i in 0..n {
                let (cls, bytes, nfds) = match r.below(10) {
                    0 | 1 => {
                        let len = r.below(41) as usize;
                        ("rand-bytes", (0..len).map(|_| r.next() as u8).collect::<Vec<u8>>(), 0)
                    }
                    2 | 3 => {
                        // plausible fixed header, random rest of exactly the declared size
                        let le = r.chance(1, 2);
                        let flen = r.below(40) as u32;
                        let blen = r.below(24) as u32;
                        let mut b = vec![if le { b'l' } else { b'B' }, r.below(6) as u8, r.next() as u8 & 7, 1];
                        let put = |b: &mut Vec<u8>, v: u32| b.extend_from_slice(&if le { v.to_le_bytes() } else { v.to_be_bytes() });
                        put(&mut b, blen);
                        put(&mut b, (r.next() as u32).max(1));
                        put(&mut b, flen);
                        let hl = 16 + flen as usize;
                        let total = hl + (8 - hl % 8) % 8 + blen as usize;
                        while b.len() < total {
                            // bias towards small values and signature characters
                            let x = match r.below(4) {
                                0 => 0,
                                1 => *r.pick(b"ysuogvah(){}a\x01\x02\x08"),
                                2 => r.below(10) as u8,
                                _ => r.next() as u8,
                            };
                            b.push(x);
                        }
                        ("rand-hdr", b, r.below(2) as usize)
                    }
                    4..=6 => {
                        let (mut b, nfds) = built(&mut r);
                        mutate(&mut r, &mut b, &[]);
                        ("rand-mut1", b, nfds)
                    }
                    _ => {
                        let (mut b, nfds) = built(&mut r);
                        let (o, _) = built(&mut r);
                        let k = 2 + r.below(3);
                        for _ in 0..k {
                            mutate(&mut r, &mut b, &o);
                        }
                        ("rand-mutn", b, nfds)
                    }
                };
                let case = json!({"id":i,"cls":cls,"bytes":jbytes(&bytes),"nfds":nfds});
                if i < start {
                    continue;
                }
                write_cur(&cur, &case);
                let o = observe_hostile(&case, false);
                writeln!(w, "{}", serde_json::to_string(&o).unwrap()).unwrap();
            }
        })
        .unwrap();
    h.join().expect("worker");
}
