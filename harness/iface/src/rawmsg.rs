//! Byte-level view of a received message, independent of zbus's own header parsing.
//!
//! zvariant's `Signature` parses both `us` and `(us)` to the same structure value, so the *exact*
//! body signature string a peer would see has to be read from the bytes.  Only the header field types
//! the D-Bus specification uses (o, s, g, u) are understood; anything else is reported as an error.
#![allow(dead_code)]
use serde_json::{json, Value as J};
use zvariant::{serialized::Context, serialized::Data, Endian, Signature, Structure};

#[path = "../../wire/src/model.rs"]
#[allow(unexpected_cfgs)]
pub mod model;

#[derive(Debug, Default, Clone)]
pub struct RawHeader {
    pub mtype: u8,
    pub flags: u8,
    pub serial: u32,
    pub body_len: u32,
    pub path: Option<String>,
    pub interface: Option<String>,
    pub member: Option<String>,
    pub error_name: Option<String>,
    pub reply_serial: Option<u32>,
    pub signature: String,
    pub body_offset: usize,
    pub little: bool,
}

fn rd_u32(b: &[u8], p: usize, le: bool) -> Result<u32, String> {
    let s: [u8; 4] = b.get(p..p + 4).ok_or("truncated u32")?.try_into().unwrap();
    Ok(if le { u32::from_le_bytes(s) } else { u32::from_be_bytes(s) })
}

fn align(p: usize, a: usize) -> usize {
    (p + a - 1) / a * a
}

pub fn parse_header(b: &[u8]) -> Result<RawHeader, String> {
    if b.len() < 16 {
        return Err("short message".into());
    }
    let le = match b[0] {
        b'l' => true,
        b'B' => false,
        x => return Err(format!("bad endian byte {x}")),
    };
    let mut h = RawHeader { mtype: b[1], flags: b[2], little: le, ..Default::default() };
    h.body_len = rd_u32(b, 4, le)?;
    h.serial = rd_u32(b, 8, le)?;
    let flen = rd_u32(b, 12, le)? as usize;
    let end = 16 + flen;
    if b.len() < end {
        return Err("truncated header fields".into());
    }
    let mut p = 16;
    while p < end {
        p = align(p, 8);
        if p >= end {
            break;
        }
        let code = b[p];
        p += 1;
        let sl = b[p] as usize;
        let vs = std::str::from_utf8(&b[p + 1..p + 1 + sl]).map_err(|e| e.to_string())?.to_string();
        p += 1 + sl + 1;
        let mut sval: Option<String> = None;
        let mut uval: Option<u32> = None;
        match vs.as_str() {
            "s" | "o" => {
                p = align(p, 4);
                let n = rd_u32(b, p, le)? as usize;
                p += 4;
                sval = Some(String::from_utf8(b[p..p + n].to_vec()).map_err(|e| e.to_string())?);
                p += n + 1;
            }
            "g" => {
                let n = b[p] as usize;
                p += 1;
                sval = Some(String::from_utf8(b[p..p + n].to_vec()).map_err(|e| e.to_string())?);
                p += n + 1;
            }
            "u" => {
                p = align(p, 4);
                uval = Some(rd_u32(b, p, le)?);
                p += 4;
            }
            other => return Err(format!("header field {code} of unsupported type {other}")),
        }
        match code {
            1 => h.path = sval,
            2 => h.interface = sval,
            3 => h.member = sval,
            4 => h.error_name = sval,
            5 => h.reply_serial = uval,
            8 => h.signature = sval.unwrap_or_default(),
            _ => {}
        }
    }
    h.body_offset = align(end, 8);
    Ok(h)
}

/// Split a signature string into its single complete types.
pub fn split_sig(s: &str) -> Result<Vec<String>, String> {
    fn one(b: &[u8], p: usize) -> Result<usize, String> {
        match b.get(p) {
            None => Err("unexpected end of signature".into()),
            Some(b'a') => one(b, p + 1),
            Some(b'(') => {
                let mut q = p + 1;
                while b.get(q) != Some(&b')') {
                    q = one(b, q)?;
                }
                Ok(q + 1)
            }
            Some(b'{') => {
                let mut q = p + 1;
                while b.get(q) != Some(&b'}') {
                    q = one(b, q)?;
                }
                Ok(q + 1)
            }
            Some(b')') | Some(b'}') => Err("unbalanced signature".into()),
            Some(_) => Ok(p + 1),
        }
    }
    let b = s.as_bytes();
    let mut out = vec![];
    let mut p = 0;
    while p < b.len() {
        let q = one(b, p)?;
        out.push(s[p..q].to_string());
        p = q;
    }
    Ok(out)
}

/// Decode the body of a message into a list of abstract (type, value) pairs, using the raw signature
/// string: `us` is two values, `(us)` is one structure.
pub fn body_abstract(bytes: &[u8], h: &RawHeader) -> Result<Vec<J>, String> {
    if h.signature.is_empty() {
        return Ok(vec![]);
    }
    let parts = split_sig(&h.signature)?;
    let wrapped = format!("({})", h.signature);
    let sig = Signature::try_from(wrapped.as_str()).map_err(|e| e.to_string())?;
    let body = bytes.get(h.body_offset..h.body_offset + h.body_len as usize).ok_or("truncated body")?;
    let ctxt = Context::new_dbus(if h.little { Endian::Little } else { Endian::Big }, 0);
    let data = Data::new(body, ctxt);
    let (st, _): (Structure, usize) = data.deserialize_for_dynamic_signature(&sig).map_err(|e| e.to_string())?;
    let fields = st.fields();
    if fields.len() != parts.len() {
        return Err(format!("decoded {} values for signature {}", fields.len(), h.signature));
    }
    let mut out = vec![];
    for f in fields {
        let mut n = 0;
        let (t, v) = model::abstract_of(f, &mut n, None);
        out.push(json!({"T": t, "v": v}));
    }
    Ok(out)
}

pub fn type_name(t: u8) -> &'static str {
    match t {
        1 => "call",
        2 => "return",
        3 => "error",
        4 => "signal",
        _ => "other",
    }
}
