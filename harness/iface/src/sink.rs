//! Observation sink and value glue used by the generated interfaces (generated*.rs).
//!
//! * handlers log `HStart` / `HEnd` (method handlers) and `PGet` / `PSet` (property accessors) with
//!   their arguments / results in the abstract value model of DESIGN.md section 3;
//! * `Abs` converts the handful of Rust types the shapes use to / from that model;
//! * `Make` builds a result value that is determined by a digest of the inputs, so replies that get
//!   crossed or truncated are distinguishable.
#![allow(dead_code)]
use std::collections::HashMap;
use std::future::Future;
use std::pin::Pin;
use std::sync::atomic::{AtomicBool, Ordering};
use std::sync::Mutex;
use std::task::{Context, Poll};

use serde_json::{json, Value as J};
use zbus::zvariant::{OwnedValue, Value};

use crate::rawmsg::model;

static LOG: Mutex<Vec<J>> = Mutex::new(Vec::new());
/// When set, the next fallible handler returns its error instead of its value.
pub static FAIL: AtomicBool = AtomicBool::new(false);

pub fn push(ev: J) {
    LOG.lock().unwrap().push(ev);
}

pub fn take() -> Vec<J> {
    std::mem::take(&mut *LOG.lock().unwrap())
}

fn fnv(s: &str) -> u32 {
    let mut h: u32 = 0x811c9dc5;
    for b in s.as_bytes() {
        h ^= *b as u32;
        h = h.wrapping_mul(0x01000193);
    }
    h
}

pub fn seed_of(iface: &str, name: &str) -> u32 {
    fnv(&format!("{iface}.{name}"))
}

/// Log the start of a method handler; returns the digest that determines the handler's result.
pub fn start(iface: &str, member: &str, args: Vec<J>) -> u32 {
    let h = fnv(&format!("{iface}.{member}{}", J::Array(args.clone())));
    push(json!({"ev": "HStart", "iface": iface, "member": member, "args": args}));
    h
}

pub fn end(iface: &str, member: &str, outs: Vec<J>) {
    push(json!({"ev": "HEnd", "iface": iface, "member": member, "ok": outs}));
}

pub const FAIL_NAME: &str = "org.freedesktop.DBus.Error.NotSupported";

/// For fallible handlers: if the driver armed FAIL, log the error outcome and return it.
pub fn fail(iface: &str, member: &str, h: u32) -> Option<zbus::fdo::Error> {
    if FAIL.load(Ordering::SeqCst) {
        let msg = format!("handler error {h}");
        push(json!({"ev": "HEnd", "iface": iface, "member": member, "err": FAIL_NAME, "msg": msg}));
        Some(zbus::fdo::Error::NotSupported(msg))
    } else {
        None
    }
}

pub fn pget(iface: &str, prop: &str, v: J) {
    push(json!({"ev": "PGet", "iface": iface, "prop": prop, "value": v}));
}

pub fn pset(iface: &str, prop: &str, v: J) {
    push(json!({"ev": "PSet", "iface": iface, "prop": prop, "value": v}));
}

/// A future that is pending exactly once (a yield point inside async handlers).
pub struct YieldOnce(bool);
pub fn yield_once() -> YieldOnce {
    YieldOnce(false)
}
impl Future for YieldOnce {
    type Output = ();
    fn poll(mut self: Pin<&mut Self>, cx: &mut Context<'_>) -> Poll<()> {
        if self.0 {
            Poll::Ready(())
        } else {
            self.0 = true;
            cx.waker().wake_by_ref();
            Poll::Pending
        }
    }
}

/// Name of the D-Bus error carried by a `zbus::Error` (what a proxy caller observes).
pub fn err_name(e: &zbus::Error) -> J {
    match e {
        zbus::Error::MethodError(name, msg, _) => json!({"err": name.as_str(), "msg": msg}),
        zbus::Error::FDO(f) => {
            use zbus::DBusError;
            json!({"err": f.name().as_str(), "msg": f.description()})
        }
        other => json!({"err": "local", "msg": other.to_string()}),
    }
}

// ---------------------------------------------------------------- abstract values
fn be4(x: u32) -> J {
    model::jbytes(&x.to_be_bytes())
}

/// Conversion between a Rust value and its abstract typed form `{"T": type, "v": value}`.
pub trait Abs: Sized {
    fn ty() -> J;
    fn val(&self) -> J;
    fn from_val(v: &J) -> Self;
    fn to_abs(&self) -> J {
        json!({"T": Self::ty(), "v": self.val()})
    }
    fn from_abs(tv: &J) -> Self {
        Self::from_val(&tv["v"])
    }
}

impl Abs for u32 {
    fn ty() -> J {
        json!({"k": "u"})
    }
    fn val(&self) -> J {
        json!({"b": be4(*self)})
    }
    fn from_val(v: &J) -> Self {
        u32::from_be_bytes(model::bytes_of(&v["b"]).try_into().expect("u32 bytes"))
    }
}

impl Abs for String {
    fn ty() -> J {
        json!({"k": "s"})
    }
    fn val(&self) -> J {
        json!({"s": model::jbytes(self.as_bytes())})
    }
    fn from_val(v: &J) -> Self {
        String::from_utf8(model::bytes_of(&v["s"])).expect("utf8")
    }
}

impl<A: Abs, B: Abs> Abs for (A, B) {
    fn ty() -> J {
        json!({"k": "r", "f": [A::ty(), B::ty()]})
    }
    fn val(&self) -> J {
        json!({"r": [self.0.val(), self.1.val()]})
    }
    fn from_val(v: &J) -> Self {
        (A::from_val(&v["r"][0]), B::from_val(&v["r"][1]))
    }
}

impl<T: Abs> Abs for Vec<T> {
    fn ty() -> J {
        json!({"k": "a", "e": T::ty()})
    }
    fn val(&self) -> J {
        json!({"a": self.iter().map(|x| x.val()).collect::<Vec<_>>()})
    }
    fn from_val(v: &J) -> Self {
        v["a"].as_array().expect("array").iter().map(T::from_val).collect()
    }
}

impl Abs for OwnedValue {
    fn ty() -> J {
        json!({"k": "v"})
    }
    fn val(&self) -> J {
        let inner: &Value<'_> = self;
        let mut n = 0;
        let (t, v) = model::abstract_of(inner, &mut n, None);
        json!({"t": t, "v": v})
    }
    fn from_val(v: &J) -> Self {
        let mut pool = model::FdPool::new();
        let val = model::build_value(&v["t"], &v["v"], &mut pool).expect("buildable value");
        OwnedValue::try_from(val).expect("owned value")
    }
}

impl Abs for HashMap<String, OwnedValue> {
    fn ty() -> J {
        json!({"k": "a", "e": {"k": "e", "key": {"k": "s"}, "val": {"k": "v"}}})
    }
    fn val(&self) -> J {
        let mut keys: Vec<&String> = self.keys().collect();
        keys.sort();
        json!({"a": keys.iter().map(|k| json!({"r": [k.val(), self[*k].val()]})).collect::<Vec<_>>()})
    }
    fn from_val(v: &J) -> Self {
        v["a"]
            .as_array()
            .expect("dict")
            .iter()
            .map(|e| (String::from_val(&e["r"][0]), OwnedValue::from_val(&e["r"][1])))
            .collect()
    }
}

// ---------------------------------------------------------------- results determined by a digest
pub trait Make {
    fn make(h: u32) -> Self;
}
impl Make for u32 {
    fn make(h: u32) -> Self {
        h
    }
}
impl Make for String {
    fn make(h: u32) -> Self {
        match h % 4 {
            0 => String::new(),
            1 => format!("r{}", h % 100_000),
            2 => format!("<&>\"'--{}", h % 1000),
            _ => format!("\u{e9}\u{4e16}{}", h % 1000),
        }
    }
}
impl<A: Make, B: Make> Make for (A, B) {
    fn make(h: u32) -> Self {
        (A::make(h), B::make(h.wrapping_mul(31).wrapping_add(7)))
    }
}
impl<A: Make> Make for (A,) {
    fn make(h: u32) -> Self {
        (A::make(h),)
    }
}
impl<T: Make> Make for Vec<T> {
    fn make(h: u32) -> Self {
        (0..(h % 3)).map(|i| T::make(h.wrapping_add(i.wrapping_mul(977)))).collect()
    }
}
impl Make for OwnedValue {
    fn make(h: u32) -> Self {
        match h % 3 {
            0 => OwnedValue::from(h),
            1 => OwnedValue::try_from(Value::from(String::make(h / 3))).unwrap(),
            _ => OwnedValue::try_from(Value::from((h, String::make(h / 3)))).unwrap(),
        }
    }
}
impl Make for HashMap<String, OwnedValue> {
    fn make(h: u32) -> Self {
        (0..(h % 3)).map(|i| (format!("k{}", (h / 3 + i) % 50), OwnedValue::make(h.wrapping_add(i)))).collect()
    }
}

// ---------------------------------------------------------------- seeded random values of a type
pub fn rand_val(t: &J, rng: &mut model::Rng, depth: u32) -> J {
    match model::k(t) {
        "u" => {
            let x = match rng.below(4) {
                0 => 0,
                1 => u32::MAX,
                _ => rng.next() as u32,
            };
            json!({"b": be4(x)})
        }
        "s" => {
            let n = rng.below(6);
            let mut s = String::new();
            for _ in 0..n {
                s.push(*rng.pick(&['a', 'Z', '<', '&', '>', '"', '\'', '-', ' ', '\u{e9}', '\u{4e16}', '\n']));
            }
            json!({"s": model::jbytes(s.as_bytes())})
        }
        "v" => {
            let opts = [
                json!({"k": "u"}),
                json!({"k": "s"}),
                json!({"k": "r", "f": [{"k": "u"}, {"k": "s"}]}),
                json!({"k": "a", "e": {"k": "s"}}),
            ];
            let it = if depth > 1 { opts[rng.below(2) as usize].clone() } else { rng.pick(&opts).clone() };
            let v = rand_val(&it, rng, depth + 1);
            json!({"t": it, "v": v})
        }
        "r" => {
            let fs: Vec<J> = t["f"].as_array().unwrap().iter().map(|f| rand_val(f, rng, depth + 1)).collect();
            json!({"r": fs})
        }
        "a" => {
            let n = rng.below(4);
            if model::k(&t["e"]) == "e" {
                // dictionary: distinct keys, sorted (the canonical order `Abs` produces)
                let mut keys: Vec<String> = (0..n).map(|i| format!("k{}{}", i, rng.below(5))).collect();
                keys.sort();
                keys.dedup();
                let es: Vec<J> = keys
                    .iter()
                    .map(|k| json!({"r": [{"s": model::jbytes(k.as_bytes())}, rand_val(&t["e"]["val"], rng, depth + 1)]}))
                    .collect();
                json!({"a": es})
            } else {
                let es: Vec<J> = (0..n).map(|_| rand_val(&t["e"], rng, depth + 1)).collect();
                json!({"a": es})
            }
        }
        other => panic!("rand_val: unsupported type {other}"),
    }
}
