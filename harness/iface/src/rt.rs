//! Deterministic single-threaded runtime for an in-process p2p connection pair.
//!
//! Both connections are built with `internal_executor(false)`, so zbus's own tasks (socket reader,
//! object-server dispatcher, handler tasks) only run when `Det::settle` / `Det::run` poll
//! `conn.executor().tick()`.  Everything happens on the calling thread with a no-op waker; a round in
//! which neither executor has a runnable task and the driven future is still pending is *quiescence*.
//! "Quiescent and the call is still pending" is a hang (no wall clock involved).
#![allow(dead_code)]
use std::future::Future;
use std::pin::Pin;
use std::task::{Context, Poll};

use futures_util::task::noop_waker;
use futures_util::StreamExt;
use zbus::connection::socket::Channel;
use zbus::{Connection, Guid, MessageStream};

pub struct Det {
    pub server: Connection,
    pub client: Connection,
    /// every message the client connection receives (replies, errors, signals)
    pub inbox: MessageStream,
}

#[derive(Debug)]
pub struct Hang;

fn poll_once<F: Future + ?Sized>(f: Pin<&mut F>) -> Poll<F::Output> {
    let w = noop_waker();
    let mut cx = Context::from_waker(&w);
    f.poll(&mut cx)
}

/// Run one runnable task of the connection's executor, if any.
fn tick(conn: &Connection) -> bool {
    let ex = conn.executor();
    let fut = ex.tick();
    futures_util::pin_mut!(fut);
    poll_once(fut).is_ready()
}

/// Drive a future that needs no connection yet (connection construction).
fn run_bare<F: Future>(fut: F) -> F::Output {
    futures_util::pin_mut!(fut);
    for _ in 0..100_000 {
        if let Poll::Ready(v) = poll_once(fut.as_mut()) {
            return v;
        }
    }
    panic!("harness: connection construction did not complete");
}

impl Det {
    pub fn new() -> Det {
        let (a, b) = Channel::pair();
        let guid = Guid::generate();
        let g2 = guid.clone();
        let server = run_bare(async move {
            zbus::connection::Builder::authenticated_socket(a, guid)
                .expect("builder")
                .p2p()
                .internal_executor(false)
                .build()
                .await
                .expect("server connection")
        });
        let client = run_bare(async move {
            zbus::connection::Builder::authenticated_socket(b, g2)
                .expect("builder")
                .p2p()
                .internal_executor(false)
                .build()
                .await
                .expect("client connection")
        });
        let mut inbox = MessageStream::from(&client);
        inbox.set_max_queued(4096);
        Det { server, client, inbox }
    }

    /// Tick both executors until neither has a runnable task.  Returns the number of tasks run.
    pub fn settle(&self) -> usize {
        let mut n = 0;
        loop {
            let a = tick(&self.server);
            let b = tick(&self.client);
            if !a && !b {
                return n;
            }
            n += 1;
            if n > 5_000_000 {
                panic!("harness: executors never become idle (livelock)");
            }
        }
    }

    /// Drive `fut` (a client- or server-side API call) to completion; `Err(Hang)` if the system is
    /// quiescent while the future is still pending.
    pub fn run<F: Future>(&self, fut: F) -> Result<F::Output, Hang> {
        futures_util::pin_mut!(fut);
        let mut idle_rounds = 0;
        loop {
            if let Poll::Ready(v) = poll_once(fut.as_mut()) {
                return Ok(v);
            }
            let n = self.settle();
            if n == 0 {
                idle_rounds += 1;
                // two consecutive rounds without any task progress and a pending future: nothing can
                // wake it any more (all wake-ups originate from tasks of the two executors)
                if idle_rounds >= 3 {
                    return Err(Hang);
                }
            } else {
                idle_rounds = 0;
            }
        }
    }

    /// All messages that have arrived at the client so far (after `settle`).
    pub fn drain(&mut self) -> Vec<zbus::Message> {
        let mut out = vec![];
        loop {
            self.settle();
            let next = self.inbox.next();
            futures_util::pin_mut!(next);
            match poll_once(next) {
                Poll::Ready(Some(Ok(m))) => out.push(m),
                Poll::Ready(Some(Err(_))) => continue,
                Poll::Ready(None) => break,
                Poll::Pending => {
                    if self.settle() == 0 {
                        break;
                    }
                }
            }
        }
        out
    }
}
