//! Conformance driver for C26 / C27 / C28 / C33 (generated interfaces and proxies).
//!
//!   iface hash
//!   iface rpc    <trees.ndjson> <cases.ndjson> <out.ndjson>          raw calls on tree 0 (C26, C27 wire part)
//!   iface props  <trees.ndjson> <histories.ndjson> <out.ndjson>      Properties histories on tree 0 (C28)
//!   iface intro  <trees.ndjson> <out.ndjson>                         Introspect every node of every tree (C27)
//!   iface wire   <trees.ndjson> <shapes.ndjson> <out.ndjson>         signatures actually sent: Get replies, signals (C27)
//!   iface proxy  <trees.ndjson> <shapes.ndjson> <async|blocking> <seed> <rounds> <out.ndjson>   (C33)
//!
//! The program under test is `generated.rs` (or `generated_thorough.rs` with feature "thorough"),
//! produced by lib/iface_codegen.py from the shapes TLC emitted; `iface hash` tells the caller which
//! shapes the binary was compiled from.  This file only observes: it sends what the cases say,
//! records what the handlers saw (crate::sink) and what came back on the wire (crate::rawmsg).
mod rawmsg;
mod rt;
mod sink;
#[cfg(not(feature = "thorough"))]
mod generated;
#[cfg(feature = "thorough")]
#[path = "generated_thorough.rs"]
mod generated;

use std::io::{BufRead, BufReader, BufWriter, Write};
use std::sync::atomic::Ordering;

use futures_util::StreamExt;
use rawmsg::model;
use serde_json::{json, Value as J};
use zbus::message::{Flags, Message};
use zvariant::{StructureBuilder, Value};

const PROPS_IFACE: &str = "org.freedesktop.DBus.Properties";
const INTRO_IFACE: &str = "org.freedesktop.DBus.Introspectable";

fn read_ndjson(path: &str) -> Vec<J> {
    let f = std::fs::File::open(path).unwrap_or_else(|e| panic!("open {path}: {e}"));
    BufReader::new(f)
        .lines()
        .map(|l| l.expect("read line"))
        .filter(|l| !l.trim().is_empty())
        .map(|l| serde_json::from_str(&l).expect("json line"))
        .collect()
}

fn tree_by_id(trees: &[J], tid: u64) -> &J {
    trees.iter().find(|t| t["tid"].as_u64() == Some(tid)).expect("tree id")
}

/// A fresh connection pair with the tree's interfaces registered and the object server running.
fn setup(tree: &J) -> rt::Det {
    let d = rt::Det::new();
    for r in tree["regs"].as_array().unwrap() {
        let k = r["iface"].as_u64().unwrap() as usize;
        let path = r["path"].as_str().unwrap();
        let added = d
            .run(generated::register(d.server.object_server(), k, path))
            .expect("registration hangs")
            .expect("registration failed");
        assert!(added, "harness: tree registers interface {k} twice at {path}");
    }
    // Let the lazily spawned object-server task subscribe before any call is sent (a call sent
    // before that is lost; that race belongs to C30, not to the properties checked here).
    d.settle();
    d
}

fn build_call(path: &str, iface: &str, member: &str, noreply: bool, args: &[J]) -> Message {
    build_call_x(path, iface, member, noreply, 0, args)
}

/// `xflags`: bit 0 = NO_AUTO_START, bit 1 = ALLOW_INTERACTIVE_AUTHORIZATION (Rpc.tla: irrelevant to every clause)
fn build_call_x(path: &str, iface: &str, member: &str, noreply: bool, xflags: u64, args: &[J]) -> Message {
    let mut b = Message::method_call(path, member).expect("method_call");
    if !iface.is_empty() {
        b = b.interface(iface).expect("interface");
    }
    if noreply {
        b = b.with_flags(Flags::NoReplyExpected).expect("flags");
    }
    if xflags & 1 != 0 {
        b = b.with_flags(Flags::NoAutoStart).expect("flags");
    }
    if xflags & 2 != 0 {
        b = b.with_flags(Flags::AllowInteractiveAuth).expect("flags");
    }
    if args.is_empty() {
        return b.build(&()).expect("build");
    }
    let mut pool = model::FdPool::new();
    let mut sb = StructureBuilder::new();
    for a in args {
        let v: Value<'static> = model::build_value(&a["T"], &a["v"], &mut pool).expect("case value");
        sb = sb.append_field(v);
    }
    let st = sb.build().expect("structure");
    b.build(&st).expect("build")
}

/// What a peer sees of a received message, from the raw bytes.
fn raw_json(m: &Message) -> J {
    let bytes: &[u8] = m.data();
    match rawmsg::parse_header(bytes) {
        Err(e) => json!({"type": "unparsed", "name": "", "sig": "", "body": [], "decoded": false, "msg": e,
                         "member": "", "iface": "", "path": "", "rs": 0}),
        Ok(h) => {
            let (body, decoded, err) = match rawmsg::body_abstract(bytes, &h) {
                Ok(b) => (b, true, String::new()),
                Err(e) => (vec![], false, e),
            };
            // the human readable text of an error reply (first string argument), never compared for
            // zbus's own errors, but it is the payload of a handler's error
            let msg = body
                .first()
                .filter(|b| b["T"]["k"] == "s")
                .map(|b| String::from_utf8_lossy(&model::bytes_of(&b["v"]["s"])).to_string())
                .unwrap_or_default();
            json!({"type": rawmsg::type_name(h.mtype), "name": h.error_name.clone().unwrap_or_default(),
                   "sig": h.signature, "body": body, "decoded": decoded, "msg": if decoded { msg } else { err },
                   "member": h.member.clone().unwrap_or_default(), "iface": h.interface.clone().unwrap_or_default(),
                   "path": h.path.clone().unwrap_or_default(), "rs": h.reply_serial.unwrap_or(0)})
        }
    }
}

/// Pair the handler events logged since the last `take` into runs.
fn handler_runs(evs: &[J]) -> (Vec<J>, Vec<J>) {
    let mut runs: Vec<J> = vec![];
    let mut props: Vec<J> = vec![];
    for e in evs {
        match e["ev"].as_str().unwrap() {
            "HStart" => runs.push(json!({"iface": e["iface"], "member": e["member"], "args": e["args"],
                                         "end": {"kind": "none", "outs": [], "name": "", "msg": ""}})),
            "HEnd" => {
                let open = runs.iter_mut().rev().find(|r| r["iface"] == e["iface"] && r["member"] == e["member"] && r["end"]["kind"] == "none");
                let end = if e.get("ok").is_some() {
                    json!({"kind": "ok", "outs": e["ok"], "name": "", "msg": ""})
                } else {
                    json!({"kind": "err", "outs": [], "name": e["err"], "msg": e["msg"]})
                };
                match open {
                    Some(r) => r["end"] = end,
                    None => runs.push(json!({"iface": e["iface"], "member": e["member"], "args": [], "end": end})),
                }
            }
            _ => props.push(e.clone()),
        }
    }
    (runs, props)
}

/// Send a call, run the system to quiescence, return (serial, replies to it, other messages).
fn exchange(d: &mut rt::Det, m: &Message) -> (u32, Vec<J>, Vec<J>) {
    let serial = m.primary_header().serial_num().get();
    d.run(d.client.send(m)).expect("send hangs").expect("send failed");
    let msgs = d.drain();
    let mut replies = vec![];
    let mut others = vec![];
    for r in &msgs {
        let j = raw_json(r);
        if (j["type"] == "return" || j["type"] == "error") && j["rs"].as_u64() == Some(serial as u64) {
            replies.push(j);
        } else {
            others.push(j);
        }
    }
    (serial, replies, others)
}

fn sent_json(m: &Message, args: &[J]) -> J {
    let h = rawmsg::parse_header(m.data()).expect("own message parses");
    json!({"path": h.path.unwrap_or_default(), "iface": h.interface.unwrap_or_default(),
           "member": h.member.unwrap_or_default(), "sig": h.signature, "noreply": h.flags & 1 == 1, "flags": h.flags, "args": args})
}

// ------------------------------------------------------------------------------------------- rpc
fn cmd_rpc(trees: &str, cases: &str, out: &str) {
    let trees = read_ndjson(trees);
    let mut d = setup(tree_by_id(&trees, 0));
    let mut w = BufWriter::new(std::fs::File::create(out).expect("create out"));
    for c in read_ndjson(cases) {
        let s = &c["send"];
        let args: Vec<J> = s["args"].as_array().unwrap().clone();
        sink::FAIL.store(c["fail"].as_bool().unwrap_or(false), Ordering::SeqCst);
        let _ = sink::take();
        let m = build_call_x(s["path"].as_str().unwrap(), s["iface"].as_str().unwrap(), s["member"].as_str().unwrap(),
                             c["noreply"].as_bool().unwrap(), c["xflags"].as_u64().unwrap_or(0), &args);
        let (_serial, replies, others) = exchange(&mut d, &m);
        sink::FAIL.store(false, Ordering::SeqCst);
        let (runs, _) = handler_runs(&sink::take());
        let line = json!({"id": c["id"], "ev": "Call", "tid": 0,
                          "case": {"iface": c["iface"], "method": c["method"], "cls": c["cls"], "noreply": c["noreply"], "fail": c["fail"]},
                          "sent": sent_json(&m, &args), "handlers": runs, "replies": replies, "stray": others.len()});
        writeln!(w, "{line}").unwrap();
    }
}

// ------------------------------------------------------------------------------------------- props
fn obj(pairs: Vec<(&str, J)>) -> J {
    let mut m = serde_json::Map::new();
    for (k, v) in pairs {
        m.insert(k.to_string(), v);
    }
    J::Object(m)
}

fn server_values(d: &rt::Det, k: usize, path: &str) -> J {
    let vals = d
        .run(generated::prop_values(d.server.object_server(), k, path))
        .expect("prop_values hangs")
        .expect("prop_values");
    obj(vals)
}

/// a{sv} abstract value -> JSON object name -> typed value
fn dict_to_obj(tv: &J) -> J {
    let mut m = serde_json::Map::new();
    if let Some(es) = tv["v"]["a"].as_array() {
        for e in es {
            let name = String::from_utf8_lossy(&model::bytes_of(&e["r"][0]["s"])).to_string();
            m.insert(name, json!({"T": e["r"][1]["t"], "v": e["r"][1]["v"]}));
        }
    }
    J::Object(m)
}

fn str_list(tv: &J) -> J {
    J::Array(
        tv["v"]["a"]
            .as_array()
            .map(|a| a.iter().map(|s| J::String(String::from_utf8_lossy(&model::bytes_of(&s["s"])).to_string())).collect())
            .unwrap_or_default(),
    )
}

/// PropertiesChanged signals among `others`, decoded.
fn changed_signals(others: &[J]) -> (Vec<J>, usize) {
    let mut sigs = vec![];
    let mut stray = 0;
    for o in others {
        if o["type"] == "signal" && o["member"] == "PropertiesChanged" && o["iface"] == PROPS_IFACE && o["sig"] == "sa{sv}as" {
            let b = &o["body"];
            sigs.push(json!({"path": o["path"],
                             "ifname": String::from_utf8_lossy(&model::bytes_of(&b[0]["v"]["s"])).to_string(),
                             "changed": dict_to_obj(&b[1]), "invalidated": str_list(&b[2])}));
        } else {
            stray += 1;
        }
    }
    (sigs, stray)
}

fn str_tv(s: &str) -> J {
    json!({"T": {"k": "s"}, "v": {"s": model::jbytes(s.as_bytes())}})
}

fn first_field(replies: &[J], f: &str, default: &str) -> J {
    replies.first().map(|r| r[f].clone()).unwrap_or(J::String(default.to_string()))
}

fn cmd_props(trees: &str, hists: &str, out: &str) {
    let trees = read_ndjson(trees);
    let tree = tree_by_id(&trees, 0);
    let mut w = BufWriter::new(std::fs::File::create(out).expect("create out"));
    for h in read_ndjson(hists) {
        let k = h["iface"].as_u64().unwrap() as usize;
        let path = tree["regs"].as_array().unwrap().iter().find(|r| r["iface"].as_u64() == Some(k as u64)).expect("iface in tree 0")
            ["path"].as_str().unwrap().to_string();
        let mut d = setup(tree);
        let _ = sink::take();
        writeln!(w, "{}", json!({"ev": "Reset", "hid": h["id"], "iface": k, "path": path, "init": server_values(&d, k, &path)})).unwrap();
        for op in h["ops"].as_array().unwrap() {
            let kind = op["op"].as_str().unwrap();
            let ifname = op["ifname"].as_str().unwrap();
            let prop = op["prop"].as_str().unwrap_or("");
            let args: Vec<J> = match kind {
                "Get" => vec![str_tv(ifname), str_tv(prop)],
                "GetAll" => vec![str_tv(ifname)],
                "Set" => vec![str_tv(ifname), str_tv(prop),
                              json!({"T": {"k": "v"}, "v": {"t": op["value"]["T"], "v": op["value"]["v"]}})],
                other => panic!("unknown op {other}"),
            };
            let m = build_call(&path, PROPS_IFACE, kind, false, &args);
            let (_s, replies, others) = exchange(&mut d, &m);
            let (sigs, stray) = changed_signals(&others);
            let (_, pevs) = handler_runs(&sink::take());
            // decode the reply payload into the form the specification talks about
            let mut value = json!({"T": {"k": "none"}, "v": {}});
            let mut all = json!({});
            let mut decoded = false;
            if replies.len() == 1 && replies[0]["type"] == "return" {
                if kind == "Get" && replies[0]["sig"] == "v" {
                    let b = &replies[0]["body"][0]["v"];
                    value = json!({"T": b["t"], "v": b["v"]});
                    decoded = true;
                }
                if kind == "GetAll" && replies[0]["sig"] == "a{sv}" {
                    all = dict_to_obj(&replies[0]["body"][0]);
                    decoded = true;
                }
                if kind == "Set" && replies[0]["sig"] == "" {
                    decoded = true;
                }
            }
            let line = json!({"ev": kind, "hid": h["id"], "iface": k, "ifname": ifname, "prop": prop,
                              "value": if kind == "Set" { op["value"].clone() } else { json!({"T": {"k": "none"}, "v": {}}) },
                              "nreplies": replies.len(), "rtype": first_field(&replies, "type", "none"),
                              "rname": first_field(&replies, "name", ""), "rsig": first_field(&replies, "sig", ""),
                              "decoded": decoded, "got": value, "all": all, "signals": sigs, "stray": stray,
                              "accessors": pevs.len(), "server": server_values(&d, k, &path)});
            writeln!(w, "{line}").unwrap();
        }
    }
}

// ------------------------------------------------------------------------------------------- intro
fn zx_tree(n: &zbus_xml::Node<'_>) -> J {
    let ifaces: Vec<J> = n
        .interfaces()
        .iter()
        .map(|i| {
            let methods: Vec<J> = i
                .methods()
                .iter()
                .map(|m| {
                    let args: Vec<J> = m
                        .args()
                        .iter()
                        .map(|a| json!({"name": a.name().unwrap_or(""), "type": a.ty().to_string(),
                                        "dir": match a.direction() { Some(zbus_xml::ArgDirection::In) => "in", Some(zbus_xml::ArgDirection::Out) => "out", None => "" }}))
                        .collect();
                    json!({"name": m.name().as_str(), "args": args})
                })
                .collect();
            let signals: Vec<J> = i
                .signals()
                .iter()
                .map(|s| {
                    let args: Vec<J> = s.args().iter().map(|a| json!({"name": a.name().unwrap_or(""), "type": a.ty().to_string(), "dir": ""})).collect();
                    json!({"name": s.name().as_str(), "args": args})
                })
                .collect();
            let props: Vec<J> = i
                .properties()
                .iter()
                .map(|p| {
                    let ann: Vec<J> = p.annotations().iter().map(|a| json!({"name": a.name(), "value": a.value()})).collect();
                    json!({"name": p.name().as_str(), "type": p.ty().to_string(),
                           "access": match p.access() { zbus_xml::PropertyAccess::Read => "read", zbus_xml::PropertyAccess::Write => "write", zbus_xml::PropertyAccess::ReadWrite => "readwrite" },
                           "annots": ann})
                })
                .collect();
            json!({"name": i.name().as_str(), "methods": methods, "signals": signals, "props": props})
        })
        .collect();
    let nodes: Vec<J> = n.nodes().iter().map(|c| json!({"name": c.name().unwrap_or(""), "node": zx_tree(c)})).collect();
    json!({"ifaces": ifaces, "nodes": nodes})
}

fn cmd_intro(trees: &str, out: &str) {
    let mut w = BufWriter::new(std::fs::File::create(out).expect("create out"));
    let mut id = 0;
    for tree in read_ndjson(trees) {
        let mut d = setup(&tree);
        for node in tree["nodes"].as_array().unwrap() {
            let path = node["path"].as_str().unwrap();
            let m = build_call(path, INTRO_IFACE, "Introspect", false, &[]);
            let (_s, replies, others) = exchange(&mut d, &m);
            let mut xml = J::Null;
            let mut zx = J::Null;
            let mut zx_err = String::new();
            if replies.len() == 1 && replies[0]["type"] == "return" && replies[0]["sig"] == "s" {
                let text = String::from_utf8(model::bytes_of(&replies[0]["body"][0]["v"]["s"])).expect("utf8 reply");
                let t2 = text.clone();
                match model::guarded(move || zbus_xml::Node::from_reader(t2.as_bytes()).map(|n| zx_tree(&n)).map_err(|e| e.to_string())) {
                    Ok(Ok(t)) => zx = t,
                    Ok(Err(e)) => zx_err = e,
                    Err(p) => zx_err = format!("panic: {p}"),
                }
                xml = J::String(text);
            }
            let line = json!({"id": id, "ev": "Intro", "tid": tree["tid"], "path": path, "segs": node["segs"],
                              "nreplies": replies.len(), "rtype": first_field(&replies, "type", "none"),
                              "rname": first_field(&replies, "name", ""),
                              "xml": xml, "zx": zx, "zx_err": zx_err, "stray": others.len()});
            id += 1;
            writeln!(w, "{line}").unwrap();
        }
    }
}

// ------------------------------------------------------------------------------------------- wire
/// What the server really sends for properties and signals of every interface of tree 0:
/// the signature inside the variant of a Get reply, and the body signature of emitted signals.
fn cmd_wire(trees: &str, shapes: &str, out: &str) {
    let trees = read_ndjson(trees);
    let tree = tree_by_id(&trees, 0);
    let shapes = read_ndjson(shapes);
    let mut d = setup(tree);
    let mut w = BufWriter::new(std::fs::File::create(out).expect("create out"));
    let mut rng = model::Rng(7);
    let mut id = 0;
    for r in tree["regs"].as_array().unwrap() {
        let k = r["iface"].as_u64().unwrap() as usize;
        let path = r["path"].as_str().unwrap();
        let shape = shapes.iter().find(|s| s["id"].as_u64() == Some(k as u64)).expect("shape");
        let ifname = shape["name"].as_str().unwrap();
        for p in shape["props"].as_array().unwrap() {
            let name = p["name"].as_str().unwrap();
            let m = build_call(path, PROPS_IFACE, "Get", false, &[str_tv(ifname), str_tv(name)]);
            let (_s, replies, _) = exchange(&mut d, &m);
            let ok = replies.len() == 1 && replies[0]["type"] == "return" && replies[0]["sig"] == "v";
            let inner = if ok { model::sig_string(&replies[0]["body"][0]["v"]["t"]) } else { String::new() };
            // a Set with a value of the declared type
            let v = sink::rand_val(&p["ty"], &mut rng, 0);
            let m = build_call(path, PROPS_IFACE, "Set", false,
                               &[str_tv(ifname), str_tv(name), json!({"T": {"k": "v"}, "v": {"t": p["ty"], "v": v}})]);
            let (_s, sreplies, _) = exchange(&mut d, &m);
            let set_ok = sreplies.len() == 1 && sreplies[0]["type"] == "return";
            writeln!(w, "{}", json!({"id": id, "ev": "WireProp", "iface": k, "ifname": ifname, "prop": name,
                                     "get_ok": ok, "get_sig": inner, "set_sig": model::sig_string(&p["ty"]), "set_ok": set_ok})).unwrap();
            id += 1;
        }
        for g in shape["signals"].as_array().unwrap() {
            let name = g["name"].as_str().unwrap();
            let args: Vec<J> = g["args"].as_array().unwrap().iter().map(|t| json!({"T": t, "v": sink::rand_val(t, &mut rng, 0)})).collect();
            let _ = d.drain();
            d.run(generated::emit_signal(d.server.object_server(), k, path, name, &args)).expect("emit hangs").expect("emit");
            let got: Vec<J> = d.drain().iter().map(raw_json).filter(|j| j["type"] == "signal" && j["member"] == name && j["iface"] == ifname).collect();
            writeln!(w, "{}", json!({"id": id, "ev": "WireSignal", "iface": k, "ifname": ifname, "signal": name,
                                     "count": got.len(), "sig": got.first().map(|g| g["sig"].clone()).unwrap_or(J::String("?".into()))})).unwrap();
            id += 1;
        }
    }
}

// ------------------------------------------------------------------------------------------- proxy
fn rand_args(ts: &J, rng: &mut model::Rng) -> Vec<J> {
    ts.as_array().unwrap().iter().map(|t| json!({"T": t, "v": sink::rand_val(t, rng, 0)})).collect()
}

fn res_json(r: Result<Vec<J>, J>) -> J {
    match r {
        Ok(outs) => json!({"kind": "ok", "outs": outs, "name": "", "msg": ""}),
        Err(e) => json!({"kind": "err", "outs": [], "name": e["err"], "msg": e["msg"].as_str().unwrap_or("")}),
    }
}

fn local_err(e: &zbus::Error) -> J {
    json!({"kind": "local", "outs": [], "name": "", "msg": e.to_string()})
}

fn hang_json() -> J {
    json!({"kind": "hang", "outs": [], "name": "", "msg": ""})
}

/// One round = every method, property and signal of every interface of tree 0 once, random values.
fn cmd_proxy(trees: &str, shapes: &str, mode: &str, seed: u64, rounds: u64, out: &str) {
    let trees = read_ndjson(trees);
    let tree = tree_by_id(&trees, 0).clone();
    let shapes = read_ndjson(shapes);
    let mut w = BufWriter::new(std::fs::File::create(out).expect("create out"));
    let mut rng = model::Rng(seed.wrapping_mul(0x9E37).wrapping_add(if mode == "async" { 1 } else { 2 }));
    let mut id = 0u64;
    let mut emit = |mut j: J| {
        j["id"] = json!(id);
        j["mode"] = json!(mode);
        id += 1;
        writeln!(w, "{j}").unwrap();
    };
    if mode == "async" {
        let mut d = setup(&tree);
        for _ in 0..rounds {
            for r in tree["regs"].as_array().unwrap() {
                let k = r["iface"].as_u64().unwrap() as usize;
                let path = r["path"].as_str().unwrap();
                let shape = shapes.iter().find(|s| s["id"].as_u64() == Some(k as u64)).expect("shape");
                for m in shape["methods"].as_array().unwrap() {
                    let member = m["name"].as_str().unwrap();
                    let args = rand_args(&m["ins"], &mut rng);
                    let fail = m["fallible"].as_bool().unwrap() && rng.chance(1, 4);
                    sink::FAIL.store(fail, Ordering::SeqCst);
                    let _ = sink::take();
                    let res = d.run(generated::proxy_call_async(&d.client, k, path, member, &args));
                    sink::FAIL.store(false, Ordering::SeqCst);
                    d.settle();
                    let (runs, _) = handler_runs(&sink::take());
                    let ret = match res {
                        Err(rt::Hang) => hang_json(),
                        Ok(Err(e)) => local_err(&e),
                        Ok(Ok(r)) => res_json(r),
                    };
                    emit(json!({"ev": "PCall", "iface": k, "member": member, "args": args, "fail": fail, "handlers": runs, "ret": ret}));
                }
                for p in shape["props"].as_array().unwrap() {
                    let name = p["name"].as_str().unwrap();
                    if p["access"] != "read" {
                        let v = json!({"T": p["ty"], "v": sink::rand_val(&p["ty"], &mut rng, 0)});
                        let res = d.run(generated::proxy_set_async(&d.client, k, path, name, &v));
                        d.settle();
                        let ret = match res {
                            Err(rt::Hang) => hang_json(),
                            Ok(Err(e)) => local_err(&e),
                            Ok(Ok(r)) => res_json(r.map(|_| vec![])),
                        };
                        emit(json!({"ev": "PSet", "iface": k, "prop": name, "value": v, "ret": ret, "server": server_values(&d, k, path)}));
                    }
                    if p["access"] != "write" {
                        let res = d.run(generated::proxy_get_async(&d.client, k, path, name));
                        d.settle();
                        let ret = match res {
                            Err(rt::Hang) => hang_json(),
                            Ok(Err(e)) => local_err(&e),
                            Ok(Ok(r)) => res_json(r.map(|v| vec![v])),
                        };
                        emit(json!({"ev": "PGet", "iface": k, "prop": name, "ret": ret, "server": server_values(&d, k, path)}));
                    }
                }
                for g in shape["signals"].as_array().unwrap() {
                    let name = g["name"].as_str().unwrap();
                    let args = rand_args(&g["args"], &mut rng);
                    let st = d.run(generated::proxy_signals_async(&d.client, k, path, name));
                    let mut items: Vec<J> = vec![];
                    let mut note = String::new();
                    match st {
                        Err(rt::Hang) => note = "subscribe hangs".into(),
                        Ok(Err(e)) => note = format!("subscribe failed: {e}"),
                        Ok(Ok(mut st)) => {
                            d.settle();
                            match d.run(generated::emit_signal(d.server.object_server(), k, path, name, &args)) {
                                Err(rt::Hang) => note = "emit hangs".into(),
                                Ok(Err(e)) => note = format!("emit failed: {e}"),
                                Ok(Ok(())) => {}
                            }
                            d.settle();
                            // everything that has arrived; the stream being pending at quiescence ends it
                            while let Ok(Some(it)) = d.run(st.next()) {
                                items.push(match it {
                                    Ok(a) => json!({"ok": true, "args": a, "msg": ""}),
                                    Err(e) => json!({"ok": false, "args": [], "msg": e}),
                                });
                            }
                            drop(st);
                            d.settle();
                        }
                    }
                    let _ = d.drain();
                    emit(json!({"ev": "PSignal", "iface": k, "signal": name, "args": args, "items": items, "note": note}));
                }
            }
        }
    } else {
        blocking::run(&tree, &shapes, &mut rng, rounds, &mut emit);
    }
}

/// The same round with the blocking proxies: normal connections (internal executor threads), the
/// caller is this thread.  Not schedule-controlled; a watchdog turns a hang into a tool failure.
mod blocking {
    use super::*;
    use zbus::connection::socket::Channel;

    struct Probe;
    #[zbus::interface(name = "org.verif.Probe")]
    impl Probe {
        fn ready(&self) -> bool {
            true
        }
    }

    pub fn run(tree: &J, shapes: &[J], rng: &mut model::Rng, rounds: u64, emit: &mut dyn FnMut(J)) {
        std::thread::spawn(|| {
            std::thread::sleep(std::time::Duration::from_secs(600));
            eprintln!("harness: blocking proxy run exceeded its watchdog");
            std::process::exit(3);
        });
        let (a, b) = Channel::pair();
        let guid = zbus::Guid::generate();
        // Serving one (trivial) interface through the builder makes `build` wait until the object-server
        // task has subscribed; without it the first call can arrive before the lazily started task
        // listens and is lost (that race is C30's subject), and a blocking call would wait forever.
        let server = zbus::blocking::connection::Builder::authenticated_socket(a, guid.clone())
            .unwrap()
            .p2p()
            .serve_at("/verif_probe", Probe)
            .expect("serve_at")
            .build()
            .expect("server");
        let client = zbus::blocking::connection::Builder::authenticated_socket(b, guid).unwrap().p2p().build().expect("client");
        let os = server.inner().object_server().clone();
        for r in tree["regs"].as_array().unwrap() {
            let k = r["iface"].as_u64().unwrap() as usize;
            zbus::block_on(generated::register(&os, k, r["path"].as_str().unwrap())).expect("register");
        }
        let server_vals = |k: usize, path: &str| obj(zbus::block_on(generated::prop_values(&os, k, path)).expect("prop_values"));
        let mut lost_signals = 0u32;
        for _ in 0..rounds {
            for r in tree["regs"].as_array().unwrap() {
                let k = r["iface"].as_u64().unwrap() as usize;
                let path = r["path"].as_str().unwrap();
                let shape = shapes.iter().find(|s| s["id"].as_u64() == Some(k as u64)).expect("shape");
                for m in shape["methods"].as_array().unwrap() {
                    let member = m["name"].as_str().unwrap();
                    let args = rand_args(&m["ins"], rng);
                    let fail = m["fallible"].as_bool().unwrap() && rng.chance(1, 4);
                    sink::FAIL.store(fail, Ordering::SeqCst);
                    let _ = sink::take();
                    let res = generated::proxy_call_blocking(&client, k, path, member, &args);
                    sink::FAIL.store(false, Ordering::SeqCst);
                    let (runs, _) = handler_runs(&sink::take());
                    let ret = match res {
                        Err(e) => local_err(&e),
                        Ok(r) => res_json(r),
                    };
                    emit(json!({"ev": "PCall", "iface": k, "member": member, "args": args, "fail": fail, "handlers": runs, "ret": ret}));
                }
                for p in shape["props"].as_array().unwrap() {
                    let name = p["name"].as_str().unwrap();
                    if p["access"] != "read" {
                        let v = json!({"T": p["ty"], "v": sink::rand_val(&p["ty"], rng, 0)});
                        let ret = match generated::proxy_set_blocking(&client, k, path, name, &v) {
                            Err(e) => local_err(&e),
                            Ok(r) => res_json(r.map(|_| vec![])),
                        };
                        emit(json!({"ev": "PSet", "iface": k, "prop": name, "value": v, "ret": ret, "server": server_vals(k, path)}));
                    }
                    if p["access"] != "write" {
                        let ret = match generated::proxy_get_blocking(&client, k, path, name) {
                            Err(e) => local_err(&e),
                            Ok(r) => res_json(r.map(|v| vec![v])),
                        };
                        emit(json!({"ev": "PGet", "iface": k, "prop": name, "ret": ret, "server": server_vals(k, path)}));
                    }
                }
                for g in shape["signals"].as_array().unwrap() {
                    let name = g["name"].as_str().unwrap();
                    let args = rand_args(&g["args"], rng);
                    let mut items: Vec<J> = vec![];
                    let mut note = String::new();
                    match generated::proxy_signals_blocking(&client, k, path, name) {
                        Err(e) => note = format!("subscribe failed: {e}"),
                        Ok(it) => {
                            let mut it = it;
                            if let Err(e) = zbus::block_on(generated::emit_signal(&os, k, path, name, &args)) {
                                note = format!("emit failed: {e}");
                            } else {
                                // Exactly one signal was emitted.  `next` blocks until one arrives, so it runs
                                // on a helper thread and a lost signal shows up as "no item within 20 s" (the
                                // in-process delivery normally takes microseconds); surplus deliveries are
                                // looked for by the async run only.
                                let (tx, rx) = std::sync::mpsc::channel();
                                std::thread::spawn(move || {
                                    let _ = tx.send(it.next());
                                });
                                // (after the first loss the remaining waits are short, so that a build that
                                // loses every signal still finishes well within the watchdog)
                                let wait = if lost_signals == 0 { 20 } else { 2 };
                                match rx.recv_timeout(std::time::Duration::from_secs(wait)) {
                                    Ok(Some(x)) => items.push(match x {
                                        Ok(a) => json!({"ok": true, "args": a, "msg": ""}),
                                        Err(e) => json!({"ok": false, "args": [], "msg": e}),
                                    }),
                                    Ok(None) => {}
                                    Err(_) => {
                                        lost_signals += 1;
                                        note = format!("no signal within {wait} s");
                                    }
                                }
                            }
                        }
                    }
                    emit(json!({"ev": "PSignal", "iface": k, "signal": name, "args": args, "items": items, "note": note}));
                }
            }
        }
    }
}

fn main() {
    let a: Vec<String> = std::env::args().collect();
    let cmd = a.get(1).map(|s| s.as_str()).unwrap_or("");
    match cmd {
        "hash" => println!("{} {}", generated::SHAPES_HASH, generated::NIFACE),
        "rpc" => cmd_rpc(&a[2], &a[3], &a[4]),
        "props" => cmd_props(&a[2], &a[3], &a[4]),
        "intro" => cmd_intro(&a[2], &a[3]),
        "wire" => cmd_wire(&a[2], &a[3], &a[4]),
        "proxy" => cmd_proxy(&a[2], &a[3], &a[4], a[5].parse().expect("seed"), a[6].parse().expect("rounds"), &a[7]),
        _ => {
            eprintln!("usage: iface hash | rpc | props | intro | wire | proxy (see main.rs)");
            std::process::exit(2);
        }
    }
}
