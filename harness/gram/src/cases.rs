//! Reading case files.  Two formats are accepted line by line:
//!   * raw TLC output, where a generator's emitting invariant printed `<<"CASE", "<escaped json>">>`
//!     (all other TLC output lines are skipped), and
//!   * plain ndjson (one JSON object per line).
//! Cases are numbered in file order (`id`) unless they carry an id already.
use serde_json::Value as J;
use std::io::BufRead;

const PREFIX: &str = "<<\"CASE\", \"";
const SUFFIX: &str = "\">>";

fn unescape(s: &str) -> String {
    let mut out = String::with_capacity(s.len());
    let mut it = s.chars();
    while let Some(c) = it.next() {
        if c == '\\' {
            match it.next() {
                Some('"') => out.push('"'),
                Some('\\') => out.push('\\'),
                Some('n') => out.push('\n'),
                Some('t') => out.push('\t'),
                Some(o) => {
                    out.push('\\');
                    out.push(o)
                }
                None => out.push('\\'),
            }
        } else {
            out.push(c);
        }
    }
    out
}

pub fn for_each_case(path: &str, mut f: impl FnMut(u64, J)) -> u64 {
    let file = std::fs::File::open(path).unwrap_or_else(|e| {
        eprintln!("cannot open {path}: {e}");
        std::process::exit(2)
    });
    let rd = std::io::BufReader::with_capacity(1 << 20, file);
    let mut n = 0u64;
    for line in rd.lines() {
        let line = line.expect("read");
        let js: J = if let Some(rest) = line.strip_prefix(PREFIX) {
            let Some(body) = rest.strip_suffix(SUFFIX) else { continue };
            match serde_json::from_str(&unescape(body)) {
                Ok(j) => j,
                Err(e) => {
                    eprintln!("bad CASE line: {e}: {line}");
                    std::process::exit(2)
                }
            }
        } else if line.starts_with('{') {
            match serde_json::from_str(&line) {
                Ok(j) => j,
                Err(e) => {
                    eprintln!("bad json line: {e}: {line}");
                    std::process::exit(2)
                }
            }
        } else {
            continue;
        };
        let id = js.get("id").and_then(|x| x.as_u64()).unwrap_or(n);
        f(id, js);
        n += 1;
    }
    n
}
