//! Conformance harness for the grammar / law properties of zvariant, zvariant_utils and zbus_names
//! (C06 signatures, C10 names and object paths, C08 laws of dynamic values).
//!
//! Usage: gram <command> [args...]
//!   obs-sig   <cases> <out> [<merge-with>]   observe the signature API on TLC-emitted cases
//!   rand-sig  <n> <seed> <out>               seeded random long signatures (cases only)
//!   obs-names <cases> <out>                  observe every construction path of the name types
//!   laws      <tables> <seed> <out>          observation tables of dynamic values
//! The harness only observes; every verdict is taken by TLC (spec/trace/*.tla).
#[path = "../../wire/src/model.rs"]
mod model;

mod cases;
mod laws;
mod names;
mod sig;

fn main() {
    // panics inside the code under test are data: keep them quiet, they are reported per case
    std::panic::set_hook(Box::new(|_| {}));
    let args: Vec<String> = std::env::args().collect();
    if args.len() < 2 {
        eprintln!("usage: gram <command> ...");
        std::process::exit(2);
    }
    let rest = &args[2..];
    match args[1].as_str() {
        "obs-sig" => sig::cmd_obs(rest),
        "rand-sig" => sig::cmd_rand(rest),
        "obs-names" => names::cmd_obs(rest),
        "laws" => laws::cmd_laws(rest),
        other => {
            eprintln!("unknown command {other}");
            std::process::exit(2);
        }
    }
}
