//! C06: observe zvariant's signature API on byte strings.
//!
//! For one input string `s` (bytes) the observation of this build is
//!   acc   outcomes of the six acceptance paths, in the order
//!         [FromStr, TryFrom<&str>, TryFrom<&[u8]>, from_bytes, validate, serde Deserialize (D-Bus 'g')]
//!         0 = Err, 1 = Ok, 2 = panic, 3 = not applicable (not UTF-8 / longer than a 'g' can carry)
//! and, when TryFrom<&[u8]> returned a signature `sig`:
//!   disp  sig.to_string() (inherent)          fmt   format!("{sig}") (Display)
//!   np    sig.to_string_no_parens()           npw   write_as_string_no_parens
//!   len   sig.string_len()
//!   re    [eq, same hash, cmp == Equal] of sig against a second parse of s
//!   rd    [parsed, eq, same hash, cmp == Equal] of sig against the parse of its display form
//!   cl    [eq, same hash, cmp == Equal] of sig against sig.clone()
//!   st/dy the signature built from the specification's parse tree with the static_* / dynamic
//!         constructors: {disp, len, laws:[eq, same hash, cmp == Equal]}   (only if the case has `ts`)
//!   nb    comparisons with neighbouring strings t (s itself, its display form, s + "y", both end
//!         bytes replaced, a non-ASCII string of the same length, "(" s ")"): {t, se, p?}
//!         se = outcome of `sig == t` as &str and as str (1 both true, 0 both false, 4 disagree, 2 panic)
//!         p  = [eq, same hash, cmp == Equal] of sig against the parse of t, if t parses
//! The build is named by the key the observation is stored under: "n" (plain) or "g" (gvariant).
//! When a file is merged with the other build's and both observations are identical, the line
//! carries "same": true instead of a second copy.
use crate::cases::for_each_case;
use crate::model::{bytes_of, guarded, jbytes, Rng};
use serde_json::{json, Map, Value as J};
use std::cmp::Ordering;
use std::collections::hash_map::DefaultHasher;
use std::hash::{Hash, Hasher};
use std::io::{BufRead, Write};
use std::str::FromStr;
use zvariant::serialized::{Context, Data};
use zvariant::{Signature, LE};

#[cfg(feature = "gvariant")]
pub const BUILD: &str = "g";
#[cfg(not(feature = "gvariant"))]
pub const BUILD: &str = "n";

fn hash_of<T: Hash>(t: &T) -> u64 {
    let mut h = DefaultHasher::new();
    t.hash(&mut h);
    h.finish()
}

fn oc<T, E>(r: Result<Result<T, E>, String>) -> u8 {
    match r {
        Ok(Ok(_)) => 1,
        Ok(Err(_)) => 0,
        Err(_) => 2,
    }
}

fn b(x: bool) -> u8 {
    x as u8
}

fn laws(a: &Signature, o: &Signature) -> J {
    // each comparison separately guarded: a panic is an outcome (2)
    let eq = guarded(std::panic::AssertUnwindSafe(|| a == o && o == a)).map(b).unwrap_or(2);
    let hs = guarded(std::panic::AssertUnwindSafe(|| hash_of(a) == hash_of(o))).map(b).unwrap_or(2);
    let cm = guarded(std::panic::AssertUnwindSafe(|| {
        a.cmp(o) == Ordering::Equal && o.cmp(a) == Ordering::Equal && a.partial_cmp(o) == Some(Ordering::Equal)
    }))
    .map(b)
    .unwrap_or(2);
    json!([eq, hs, cm])
}

/// Leaked `&'static Signature` built from an abstract type tree with the `static_*` constructors.
fn build_static(t: &J) -> Option<&'static Signature> {
    let leak = |s: Signature| -> &'static Signature { Box::leak(Box::new(s)) };
    Some(match t["k"].as_str()? {
        "y" => &Signature::U8,
        "b" => &Signature::Bool,
        "n" => &Signature::I16,
        "q" => &Signature::U16,
        "i" => &Signature::I32,
        "u" => &Signature::U32,
        "x" => &Signature::I64,
        "t" => &Signature::U64,
        "d" => &Signature::F64,
        "s" => &Signature::Str,
        "o" => &Signature::ObjectPath,
        "g" => &Signature::Signature,
        "v" => &Signature::Variant,
        "h" => &Signature::Fd,
        "a" => {
            let e = &t["e"];
            if e["k"] == "e" {
                leak(Signature::static_dict(build_static(&e["key"])?, build_static(&e["val"])?))
            } else {
                leak(Signature::static_array(build_static(e)?))
            }
        }
        "r" => {
            let mut fs: Vec<&'static Signature> = vec![];
            for f in t["f"].as_array()? {
                fs.push(build_static(f)?);
            }
            leak(Signature::static_structure(Box::leak(fs.into_boxed_slice())))
        }
        #[cfg(feature = "gvariant")]
        "m" => leak(Signature::static_maybe(build_static(&t["e"])?)),
        _ => return None,
    })
}

/// The same tree built with the allocating constructors.
fn build_dynamic(t: &J) -> Option<Signature> {
    Some(match t["k"].as_str()? {
        "a" => {
            let e = &t["e"];
            if e["k"] == "e" {
                Signature::dict(build_dynamic(&e["key"])?, build_dynamic(&e["val"])?)
            } else {
                Signature::array(build_dynamic(e)?)
            }
        }
        "r" => {
            let mut fs: Vec<Signature> = vec![];
            for f in t["f"].as_array()? {
                fs.push(build_dynamic(f)?);
            }
            Signature::structure(fs)
        }
        #[cfg(feature = "gvariant")]
        "m" => Signature::maybe(build_dynamic(&t["e"])?),
        _ => build_static(t)?.clone(),
    })
}

/// A type list (the specification's `ts`) as one signature, the way zvariant documents it:
/// none -> Unit, one -> that type, several -> the structure around them.
fn of_list(ts: &[J], stat: bool) -> Option<Signature> {
    if ts.is_empty() {
        return Some(Signature::Unit);
    }
    if ts.len() == 1 {
        return if stat { build_static(&ts[0]).cloned() } else { build_dynamic(&ts[0]) };
    }
    if stat {
        let mut fs: Vec<&'static Signature> = vec![];
        for f in ts {
            fs.push(build_static(f)?);
        }
        Some(Signature::static_structure(Box::leak(fs.into_boxed_slice())))
    } else {
        let mut fs = vec![];
        for f in ts {
            fs.push(build_dynamic(f)?);
        }
        Some(Signature::structure(fs))
    }
}

/// Strings a parsed signature is compared with (PartialEq<&str>), with a flag telling whether the
/// parse of that string is also compared (==, Hash, Ord) with the signature.
fn neighbours(s: &[u8], disp: &str) -> Vec<(Vec<u8>, bool)> {
    let mut out: Vec<(Vec<u8>, bool)> = vec![(s.to_vec(), false)];
    let mut push = |v: Vec<u8>, pair: bool| {
        if !out.iter().any(|(x, _)| *x == v) {
            out.push((v, pair))
        }
    };
    push(disp.as_bytes().to_vec(), false); // the display form (differs for multi-type signatures)
    let n = s.len();
    let mut v = s.to_vec();
    v.push(b'y');
    push(v, n <= 64); // one more type
    if n >= 2 {
        // same inner bytes, other delimiters
        let mut v = s.to_vec();
        v[0] = b'y';
        v[n - 1] = b'y';
        push(v, false);
        // same byte length, multi-byte characters
        let mut v = vec![];
        while v.len() + 2 <= n {
            v.extend_from_slice("é".as_bytes());
        }
        if v.len() < n {
            v.push(b'y');
        }
        push(v, false);
    }
    if n <= 16 {
        let mut v = vec![b'('];
        v.extend_from_slice(s);
        v.push(b')');
        push(v, true); // wrapped in a struct
    }
    out
}

fn de_outcome(s: &[u8]) -> u8 {
    if s.len() > 255 || std::str::from_utf8(s).is_err() {
        return 3;
    }
    let mut bytes = vec![s.len() as u8];
    bytes.extend_from_slice(s);
    bytes.push(0);
    let total = bytes.len();
    let r = guarded(move || {
        let data = Data::new(bytes, Context::new_dbus(LE, 0));
        let r: zvariant::Result<(Signature, usize)> = data.deserialize();
        r.map(|(_, n)| n)
    });
    match r {
        Ok(Ok(n)) if n == total => 1,
        Ok(Ok(_)) => 0,
        Ok(Err(_)) => 0,
        Err(_) => 2,
    }
}

pub fn observe(s: &[u8], ts: Option<&Vec<J>>) -> J {
    let utf8 = std::str::from_utf8(s).ok();
    let a_from_str = utf8.map(|t| oc(guarded(|| Signature::from_str(t)))).unwrap_or(3);
    let a_try_str = utf8.map(|t| oc(guarded(|| Signature::try_from(t)))).unwrap_or(3);
    let parsed = guarded(|| Signature::try_from(s));
    let a_try_bytes = match &parsed {
        Ok(Ok(_)) => 1,
        Ok(Err(_)) => 0,
        Err(_) => 2,
    };
    let a_from_bytes = oc(guarded(|| Signature::from_bytes(s)));
    let a_validate = oc(guarded(|| zvariant_utils::signature::validate(s)));
    let a_de = de_outcome(s);
    let mut o = Map::new();
    o.insert("acc".into(), json!([a_from_str, a_try_str, a_try_bytes, a_from_bytes, a_validate, a_de]));
    let Ok(Ok(sig)) = parsed else { return J::Object(o) };

    let strs = guarded(std::panic::AssertUnwindSafe(|| {
        let mut w = String::new();
        sig.write_as_string_no_parens(&mut w).unwrap();
        (sig.to_string(), format!("{sig}"), sig.to_string_no_parens(), w, sig.string_len())
    }));
    let (disp, fmt, np, npw, len) = match strs {
        Ok(x) => x,
        Err(m) => {
            o.insert("fmt_panic".into(), json!(m));
            return J::Object(o);
        }
    };
    o.insert("disp".into(), jbytes(disp.as_bytes()));
    o.insert("fmt".into(), jbytes(fmt.as_bytes()));
    o.insert("np".into(), jbytes(np.as_bytes()));
    o.insert("npw".into(), jbytes(npw.as_bytes()));
    o.insert("len".into(), json!(len));

    match Signature::try_from(s) {
        Ok(again) => o.insert("re".into(), laws(&sig, &again)),
        Err(_) => o.insert("re".into(), json!([0, 0, 0])),
    };
    match Signature::from_str(&disp) {
        Ok(again) => {
            let l = laws(&sig, &again);
            o.insert("rd".into(), json!([1, l[0], l[1], l[2]]))
        }
        Err(_) => o.insert("rd".into(), json!([0, 0, 0, 0])),
    };
    o.insert("cl".into(), laws(&sig, &sig.clone()));

    if let Some(ts) = ts {
        for (key, stat) in [("st", true), ("dy", false)] {
            if let Some(built) = of_list(ts, stat) {
                o.insert(
                    key.into(),
                    json!({"disp": jbytes(built.to_string().as_bytes()), "len": built.string_len(),
                           "laws": laws(&sig, &built)}),
                );
            }
        }
    }

    let mut nb = vec![];
    for (t, pair) in neighbours(s, &disp) {
        let mut e = Map::new();
        e.insert("t".into(), jbytes(&t));
        let Ok(ts) = std::str::from_utf8(&t) else { continue };
        let se = match guarded(std::panic::AssertUnwindSafe(|| (sig == ts, sig == *ts))) {
            Ok((true, true)) => 1,
            Ok((false, false)) => 0,
            Ok(_) => 4,
            Err(_) => 2,
        };
        e.insert("se".into(), json!(se));
        if pair {
            if let Ok(Ok(other)) = guarded(|| Signature::try_from(t.as_slice())) {
                e.insert("p".into(), laws(&sig, &other));
            }
        }
        nb.push(J::Object(e));
    }
    o.insert("nb".into(), J::Array(nb));
    J::Object(o)
}

/// obs-sig <cases> <out> [<merge-with>]
pub fn cmd_obs(args: &[String]) {
    let out = std::fs::File::create(&args[1]).expect("create out");
    let mut w = std::io::BufWriter::with_capacity(1 << 20, out);
    let mut merge = args.get(2).map(|p| {
        std::io::BufReader::with_capacity(1 << 20, std::fs::File::open(p).expect("open merge file")).lines()
    });
    let (mut accepted, mut spec_accepts, mut nontrivial) = (0u64, 0u64, 0u64);
    let cases = for_each_case(&args[0], |id, case| {
        let s = bytes_of(&case["s"]);
        let ts = case.get("ts").and_then(|x| x.as_array());
        let obs = observe(&s, ts);
        accepted += obs.get("disp").is_some() as u64;
        spec_accepts += case["ok"][1].as_bool().unwrap_or(false) as u64;
        nontrivial += s.iter().any(|c| b"a(){}m".contains(c)) as u64;
        match merge.as_mut() {
            None => {
                let mut line = Map::new();
                line.insert("id".into(), json!(id));
                line.insert("s".into(), case["s"].clone());
                line.insert("fam".into(), case.get("fam").cloned().unwrap_or(json!("")));
                line.insert(BUILD.into(), obs);
                writeln!(w, "{}", J::Object(line)).unwrap();
            }
            Some(m) => {
                // the other build's observation of the same case, in the same order
                let other = m.next().expect("merge file is shorter than the case file").expect("read");
                let mut line: Map<String, J> = serde_json::from_str(&other).expect("merge line");
                assert_eq!(line["id"], json!(id), "merge file out of step");
                assert_eq!(line["s"], case["s"], "merge file out of step");
                // identical observations are stored once ("same": true) to keep the files small
                if line.get("n") == Some(&obs) {
                    line.insert("same".into(), json!(true));
                } else {
                    line.insert(BUILD.into(), obs);
                }
                writeln!(w, "{}", J::Object(line)).unwrap();
            }
        }
    });
    w.flush().unwrap();
    // measured counts for the evidence file (not a verdict)
    println!(
        "{}",
        json!({"cases": cases, "accepted": accepted, "spec_accepts": spec_accepts, "nontrivial": nontrivial})
    );
}

/// rand-sig <n> <seed> <out>: seeded random signatures (valid ones built from the grammar, then
/// mutated with probability 1/2), as ndjson cases {"id","s","fam":"rand"}.  No verdict is attached:
/// the specification decides each one when the observations are validated.
pub fn cmd_rand(args: &[String]) {
    let n: u64 = args[0].parse().expect("n");
    let seed: u64 = args[1].parse().expect("seed");
    let mut rng = Rng(seed.wrapping_mul(0x9E37_79B9).wrapping_add(0xC06));
    let mut w = std::io::BufWriter::new(std::fs::File::create(&args[2]).expect("create"));
    for id in 0..n {
        let mut s = vec![];
        let span = if rng.chance(1, 6) { 270 } else { 40 };
        let target = 1 + rng.below(span) as usize;
        while s.len() < target {
            gen_type(&mut rng, &mut s, 0, 0);
        }
        if rng.chance(1, 2) {
            mutate(&mut rng, &mut s);
        }
        s.truncate(300);
        writeln!(w, "{}", json!({"id": id, "s": jbytes(&s), "fam": "rand"})).unwrap();
    }
    w.flush().unwrap();
}

const BASIC: &[u8] = b"ybnqiuxtdsogh";

fn gen_type(rng: &mut Rng, out: &mut Vec<u8>, ad: u32, sd: u32) {
    let deep = ad + sd > 40;
    match rng.below(if deep { 4 } else { 10 }) {
        0..=3 => out.push(*rng.pick(BASIC)),
        4 => out.push(b'v'),
        5 | 6 => {
            // arrays, sometimes long chains around the limit of 32
            let chain = if rng.chance(1, 8) { 28 + rng.below(8) as u32 } else { 1 };
            for _ in 0..chain {
                out.push(b'a');
            }
            gen_type(rng, out, ad + chain, sd);
        }
        7 => {
            out.extend_from_slice(b"a{");
            out.push(*rng.pick(BASIC));
            gen_type(rng, out, ad + 1, sd);
            out.push(b'}');
        }
        8 => {
            let chain = if rng.chance(1, 8) { 28 + rng.below(8) as u32 } else { 1 };
            for _ in 0..chain {
                out.push(b'(');
            }
            let k = 1 + rng.below(3);
            for _ in 0..k {
                gen_type(rng, out, ad, sd + chain);
            }
            for _ in 0..chain {
                out.push(b')');
            }
        }
        _ => {
            // the GVariant maybe constructor (rejected by the plain build); same cases for both builds
            if rng.chance(1, 3) {
                out.push(b'm');
            }
            gen_type(rng, out, ad, sd);
        }
    }
}

fn mutate(rng: &mut Rng, s: &mut Vec<u8>) {
    if s.is_empty() {
        return;
    }
    let i = rng.below(s.len() as u64) as usize;
    match rng.below(5) {
        0 => {
            s.remove(i);
        }
        1 => s.insert(i, *rng.pick(b"a(){}ymvz")),
        2 => s[i] = *rng.pick(b"a(){}ymvze"),
        3 => s.swap(i, 0),
        _ => {
            // key position of some dict entry gets a non-basic type
            if let Some(p) = s.windows(2).position(|w| w == b"a{") {
                if p + 2 < s.len() {
                    s[p + 2] = *rng.pick(b"va(");
                }
            }
        }
    }
}
