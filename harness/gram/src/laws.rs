pub fn cmd_laws(_args: &[String]) {}
