//! C08: observation tables of dynamic values (zvariant::Value / OwnedValue).
//!
//! `laws <tables> <seed> <out>` writes one line per table.  A table is a pool of N values drawn
//! (seeded) from families of related values -- NaN with several payloads, +0.0 / -0.0, equal values
//! built in different ways (static vs parsed signatures, static / borrowed / owned strings), empty
//! containers, nested containers holding those -- with everything the laws of spec/ValueLaws.tla
//! talk about:
//!   n      number of values              dbg   Debug text of every value (for humans only)
//!   nan    1 if the value contains a NaN anywhere          fd    1 if it contains a file descriptor
//!   eq     N x N: a == b                 (0 / 1; 2 = panic)
//!   cmp    N x N: Ord::cmp(a, b)         (0 Less, 1 Equal, 2 Greater; 4 = panic)
//!   pcmp   N x N: PartialOrd             (as cmp; 3 = None)
//!   hash   class index of the std DefaultHasher hash of every value (equal hash <=> equal index)
//!   vsig   value_signature() as text     esig  the signature found in the D-Bus encoding of the variant
//!   clone  per value [ok, equal to the original, same signature] for try_clone
//!   owned  the same for try_to_owned (compared through Deref)
//!   ovrt   the same for OwnedValue::try_from(&v) -> Value::from(owned)
//!   into   the same for try_clone + try_into_owned
//!   std    T -> Value -> T round trips of std types: [{"ty", "ok"}], ok = 1 iff the original came back
//!   unbuildable  well-formed values of the catalogue whose construction failed or panicked
//! The harness only observes; spec/trace/LawsCheck.tla judges every table.
use crate::model::{guarded, Rng};
use serde_json::{json, Value as J};
use std::cmp::Ordering;
use std::collections::hash_map::DefaultHasher;
use std::collections::HashMap;
use std::hash::{Hash, Hasher};
use std::io::Write;
use std::os::fd::AsFd;
use std::str::FromStr;
use zvariant::serialized::Context;
use zvariant::{Array, Dict, Fd, ObjectPath, OwnedObjectPath, OwnedValue, Signature, Str, StructureBuilder, Value, LE};

type V = Value<'static>;

fn nan(payload: u64, neg: bool) -> f64 {
    f64::from_bits(0x7ff8_0000_0000_0000 | payload | if neg { 1 << 63 } else { 0 })
}

fn arr(sig: &Signature, items: Vec<V>) -> V {
    let mut a = Array::new(sig);
    for i in items {
        a.append(i).expect("array element");
    }
    Value::Array(a)
}

fn st(items: Vec<V>) -> V {
    let mut b = StructureBuilder::new();
    for i in items {
        b = b.append_field(i);
    }
    Value::Structure(b.build().expect("structure"))
}

fn dict(k: &Signature, v: &Signature, items: Vec<(V, V)>) -> V {
    let mut d = Dict::new(k, v);
    for (a, b) in items {
        d.append(a, b).expect("dict entry");
    }
    Value::Dict(d)
}

fn parsed(s: &str) -> Signature {
    Signature::from_str(s).expect("signature")
}

static STDIN_LIKE: std::sync::OnceLock<std::fs::File> = std::sync::OnceLock::new();
fn some_file() -> &'static std::fs::File {
    STDIN_LIKE.get_or_init(|| std::fs::File::open("/dev/null").expect("/dev/null"))
}

/// Families of related values; family f, member m.  Members of a family are equal, almost equal,
/// or built differently on purpose.
fn family(f: usize, m: usize) -> Option<V> {
    let leaked: &'static str = Box::leak(String::from("a").into_boxed_str());
    Some(match (f, m) {
        // zeros and ordinary floats
        (0, 0) => Value::F64(0.0),
        (0, 1) => Value::F64(-0.0),
        (0, 2) => Value::F64(1.5),
        (0, 3) => Value::F64(f64::INFINITY),
        (0, 4) => Value::F64(f64::NEG_INFINITY),
        (0, 5) => Value::F64(f64::MIN_POSITIVE),
        // NaNs
        (1, 0) => Value::F64(nan(0, false)),
        (1, 1) => Value::F64(nan(0, false)),
        (1, 2) => Value::F64(nan(1, false)),
        (1, 3) => Value::F64(nan(0, true)),
        (1, 4) => Value::F64(2.5),
        // integers of every width, same numeric value in different types
        (2, 0) => Value::U8(1),
        (2, 1) => Value::I16(1),
        (2, 2) => Value::U16(1),
        (2, 3) => Value::I32(1),
        (2, 4) => Value::U32(1),
        (2, 5) => Value::I64(1),
        (2, 6) => Value::U64(1),
        (2, 7) => Value::Bool(true),
        (2, 8) => Value::U8(1),
        (2, 9) => Value::I64(i64::MIN),
        (2, 10) => Value::U64(u64::MAX),
        (2, 11) => Value::Bool(false),
        // strings: static / borrowed / owned spellings of the same text, and others
        (3, 0) => Value::Str(Str::from_static("a")),
        (3, 1) => Value::Str(Str::from(leaked)),
        (3, 2) => Value::Str(Str::from(String::from("a"))),
        (3, 3) => Value::Str(Str::from("")),
        (3, 4) => Value::Str(Str::from(String::from("b"))),
        (3, 5) => Value::Str(Str::from("é")),
        (3, 6) => Value::ObjectPath(ObjectPath::from_static_str_unchecked("/a")),
        (3, 7) => Value::ObjectPath(ObjectPath::try_from(String::from("/a")).unwrap()),
        (3, 8) => Value::Str(Str::from("/a")), // same text as the object path, other type
        // signatures as values: several spellings of the same signature
        (4, 0) => Value::Signature(parsed("is")),
        (4, 1) => Value::Signature(parsed("(is)")),
        (4, 2) => Value::Signature(Signature::static_structure(&[&Signature::I32, &Signature::Str])),
        (4, 3) => Value::Signature(Signature::structure(vec![Signature::I32, Signature::Str])),
        (4, 4) => Value::Signature(parsed("ai")),
        (4, 5) => Value::Signature(Signature::static_array(&Signature::I32)),
        (4, 6) => Value::Signature(Signature::Unit),
        (4, 7) => Value::Signature(parsed("")),
        (4, 8) => Value::Signature(parsed("a{sv}")),
        // empty arrays: same element type through different constructors, and other element types
        (5, 0) => arr(&Signature::U32, vec![]),
        (5, 1) => arr(&parsed("u"), vec![]),
        (5, 2) => Value::from(Vec::<u32>::new()),
        (5, 3) => arr(&Signature::I32, vec![]),
        (5, 4) => arr(&parsed("au"), vec![]),
        (5, 5) => arr(&Signature::U32, vec![Value::U32(0)]),
        (5, 6) => Value::from(vec![0u32]),
        (5, 7) => arr(&Signature::Str, vec![]),
        // arrays of floats
        (6, 0) => arr(&Signature::F64, vec![Value::F64(0.0)]),
        (6, 1) => arr(&Signature::F64, vec![Value::F64(-0.0)]),
        (6, 2) => arr(&Signature::F64, vec![Value::F64(nan(0, false))]),
        (6, 3) => arr(&Signature::F64, vec![Value::F64(1.0)]),
        (6, 4) => arr(&Signature::F64, vec![Value::F64(1.0), Value::F64(nan(0, false))]),
        (6, 5) => Value::from(vec![0.0f64]),
        (6, 6) => arr(&Signature::F64, vec![]),
        // structures holding floats: (NaN) (1.0) (2.0) -- the classic intransitive triple
        (7, 0) => st(vec![Value::F64(nan(0, false))]),
        (7, 1) => st(vec![Value::F64(1.0)]),
        (7, 2) => st(vec![Value::F64(2.0)]),
        (7, 3) => st(vec![Value::F64(nan(0, false)), Value::U8(1)]),
        (7, 4) => st(vec![Value::F64(nan(0, false)), Value::U8(2)]),
        (7, 5) => st(vec![Value::F64(0.0)]),
        (7, 6) => st(vec![Value::F64(-0.0)]),
        // structures: same content through different constructors
        (8, 0) => st(vec![Value::U8(1), Value::Str(Str::from_static("a"))]),
        (8, 1) => Value::from((1u8, "a")),
        (8, 2) => Value::from((1u8, String::from("a"))),
        (8, 3) => st(vec![Value::U8(1), Value::Str(Str::from_static("b"))]),
        (8, 4) => st(vec![Value::U8(1)]),
        (8, 5) => st(vec![st(vec![Value::U8(1)])]),
        (8, 6) => st(vec![Value::U8(1), arr(&Signature::U8, vec![])]),
        (8, 7) => st(vec![Value::U8(1), Value::from(Vec::<u8>::new())]),
        // dicts: empty through different constructors, float keys, variant values
        (9, 0) => dict(&Signature::Str, &Signature::Variant, vec![]),
        (9, 1) => dict(&parsed("s"), &parsed("v"), vec![]),
        (9, 2) => Value::from(HashMap::<String, Value<'static>>::new()),
        (9, 3) => dict(&Signature::Str, &Signature::U32, vec![]),
        (9, 4) => dict(&Signature::Str, &Signature::U32, vec![(Value::from("a"), Value::U32(1))]),
        (9, 5) => Value::from(HashMap::from([(String::from("a"), 1u32)])),
        (9, 6) => dict(&Signature::F64, &Signature::U8, vec![(Value::F64(0.0), Value::U8(1))]),
        (9, 7) => dict(&Signature::F64, &Signature::U8, vec![(Value::F64(-0.0), Value::U8(1))]),
        (9, 8) => dict(&Signature::F64, &Signature::U8, vec![(Value::F64(nan(0, false)), Value::U8(1))]),
        (9, 9) => dict(
            &Signature::Str,
            &Signature::Variant,
            vec![(Value::from("k"), Value::Value(Box::new(Value::F64(-0.0))))],
        ),
        (9, 10) => dict(
            &Signature::Str,
            &Signature::Variant,
            vec![(Value::from("k"), Value::Value(Box::new(Value::F64(0.0))))],
        ),
        // variants
        (10, 0) => Value::Value(Box::new(Value::U8(1))),
        (10, 1) => Value::Value(Box::new(Value::Value(Box::new(Value::U8(1))))),
        (10, 2) => Value::Value(Box::new(Value::F64(nan(0, false)))),
        (10, 3) => Value::Value(Box::new(Value::F64(0.0))),
        (10, 4) => Value::Value(Box::new(Value::F64(-0.0))),
        (10, 5) => Value::Value(Box::new(arr(&Signature::U32, vec![]))),
        (10, 6) => Value::Value(Box::new(Value::from(Vec::<u32>::new()))),
        // file descriptors: two handles on the same open file, borrowed and owned
        (11, 0) => Value::Fd(Fd::from(some_file().as_fd())),
        (11, 1) => Value::Fd(Fd::from(some_file().as_fd())),
        (11, 2) => Value::Fd(Fd::from(std::os::fd::OwnedFd::from(
            std::fs::File::open("/dev/null").expect("/dev/null"),
        ))),
        (11, 3) => st(vec![Value::Fd(Fd::from(some_file().as_fd())), Value::U8(1)]),
        _ => return None,
    })
}

const FAMILIES: usize = 12;

fn family_size(f: usize) -> usize {
    // a member whose construction panics still counts (the failure is observed when it is drawn)
    (0..)
        .take_while(|m| {
            let m = *m;
            guarded(move || family(f, m).is_some()).unwrap_or(true)
        })
        .count()
}

fn contains(v: &V, pred: &dyn Fn(&V) -> bool) -> bool {
    if pred(v) {
        return true;
    }
    match v {
        Value::Value(inner) => contains(inner, pred),
        Value::Array(a) => a.inner().iter().any(|x| contains(x, pred)),
        Value::Dict(d) => d.iter().any(|(k, x)| contains(k, pred) || contains(x, pred)),
        Value::Structure(s) => s.fields().iter().any(|x| contains(x, pred)),
        _ => false,
    }
}

/// Wrap a drawn value into a container (seeded), so that laws are also observed through nesting.
fn wrap(rng: &mut Rng, v: V) -> V {
    match rng.below(5) {
        0 => Value::Value(Box::new(v)),
        1 => st(vec![v, Value::U8(7)]),
        2 => {
            let sig = v.value_signature().clone();
            arr(&sig, vec![v])
        }
        3 => {
            let sig = v.value_signature().clone();
            dict(&Signature::Str, &sig, vec![(Value::from("k"), v)])
        }
        _ => st(vec![Value::from("x"), v]),
    }
}

fn hash_of(v: &V) -> u64 {
    let mut h = DefaultHasher::new();
    v.hash(&mut h);
    h.finish()
}

fn ord_code(o: Ordering) -> u8 {
    match o {
        Ordering::Less => 0,
        Ordering::Equal => 1,
        Ordering::Greater => 2,
    }
}

/// The signature text found in the D-Bus encoding of `v` as a variant: [len][signature][0] value.
fn encoded_sig(v: &V) -> String {
    match guarded(std::panic::AssertUnwindSafe(|| zvariant::to_bytes(Context::new_dbus(LE, 0), v))) {
        Ok(Ok(data)) => {
            let b = data.bytes();
            if b.is_empty() || b.len() < 2 + b[0] as usize {
                return "!short".into();
            }
            String::from_utf8_lossy(&b[1..1 + b[0] as usize]).into_owned()
        }
        Ok(Err(e)) => format!("!err {e}"),
        Err(p) => format!("!panic {p}"),
    }
}

fn preserved(orig: &V, copy: zvariant::Result<V>) -> J {
    match copy {
        Err(_) => json!([0, 0, 0]),
        Ok(c) => {
            let eq = guarded(std::panic::AssertUnwindSafe(|| c == *orig && *orig == c)).map(|x| x as u8).unwrap_or(2);
            json!([1, eq, (c.value_signature() == orig.value_signature()) as u8])
        }
    }
}

fn std_round_trips(rng: &mut Rng) -> Vec<J> {
    let mut out = vec![];
    macro_rules! rt {
        ($name:expr, $ty:ty, $val:expr, $same:expr) => {{
            let orig: $ty = $val;
            let keep = orig.clone();
            let r = guarded(std::panic::AssertUnwindSafe(|| {
                let v: Value<'_> = Value::from(orig);
                <$ty>::try_from(v)
            }));
            let ok = match r {
                Ok(Ok(back)) => {
                    let same: fn(&$ty, &$ty) -> bool = $same;
                    same(&back, &keep) as u8
                }
                Ok(Err(_)) => 0,
                Err(_) => 2,
            };
            out.push(json!({"ty": $name, "ok": ok}));
        }};
    }
    let x = rng.next();
    let pick_f = [0.0f64, -0.0, 1.5, f64::INFINITY, f64::from_bits(x), nan(0, false), nan(3, true), f64::MIN_POSITIVE];
    let f = pick_f[rng.below(pick_f.len() as u64) as usize];
    let text = ["", "a", "é€", "org.example.Name", "with space"][rng.below(5) as usize].to_string();
    rt!("u8", u8, x as u8, |a, b| a == b);
    rt!("bool", bool, x & 1 == 1, |a, b| a == b);
    rt!("i16", i16, x as i16, |a, b| a == b);
    rt!("u16", u16, x as u16, |a, b| a == b);
    rt!("i32", i32, x as i32, |a, b| a == b);
    rt!("u32", u32, x as u32, |a, b| a == b);
    rt!("i64", i64, x as i64, |a, b| a == b);
    rt!("u64", u64, x, |a, b| a == b);
    rt!("f64", f64, f, |a, b| a.to_bits() == b.to_bits());
    rt!("String", String, text.clone(), |a, b| a == b);
    rt!("Str", Str<'static>, Str::from(text.clone()), |a, b| a == b);
    rt!("Signature", Signature, parsed(["", "i", "a{sv}", "(ii)", "is"][rng.below(5) as usize]), |a, b| a == b
        && a.to_string() == b.to_string());
    rt!("ObjectPath", ObjectPath<'static>, ObjectPath::try_from(["/", "/a", "/a/b_1"][rng.below(3) as usize]).unwrap(), |a, b| a == b);
    rt!("OwnedObjectPath", OwnedObjectPath, OwnedObjectPath::try_from("/o/p").unwrap(), |a, b| a == b);
    rt!("Vec<u32>", Vec<u32>, (0..rng.below(4)).map(|i| (x >> i) as u32).collect(), |a, b| a == b);
    rt!("Vec<u8>", Vec<u8>, x.to_le_bytes()[..rng.below(9) as usize].to_vec(), |a, b| a == b);
    rt!("Vec<String>", Vec<String>, (0..rng.below(3)).map(|i| format!("s{i}{text}")).collect(), |a, b| a == b);
    rt!("Vec<f64>", Vec<f64>, vec![f, 1.0, -0.0], |a, b| a.len() == b.len()
        && a.iter().zip(b).all(|(p, q)| p.to_bits() == q.to_bits()));
    rt!("Vec<Vec<i16>>", Vec<Vec<i16>>, vec![vec![], vec![x as i16, 3]], |a, b| a == b);
    rt!("HashMap<String,u32>", HashMap<String, u32>, (0..rng.below(4)).map(|i| (format!("k{i}"), (x >> i) as u32)).collect(), |a, b| a == b);
    rt!("HashMap<u8,String>", HashMap<u8, String>, (0..rng.below(3)).map(|i| (i as u8, text.clone())).collect(), |a, b| a == b);
    rt!("HashMap<String,Vec<u8>>", HashMap<String, Vec<u8>>, HashMap::from([(text.clone(), vec![1u8, 2]), ("z".into(), vec![])]), |a, b| a == b);
    rt!("(u8,String)", (u8, String), (x as u8, text.clone()), |a, b| a == b);
    rt!("(i32,(bool,u64),Vec<u8>)", (i32, (bool, u64), Vec<u8>), (x as i32, (x & 2 == 2, x), vec![9u8]), |a, b| a == b);
    rt!("(f64,)", (f64,), (f,), |a, b| a.0.to_bits() == b.0.to_bits());
    out
}

/// laws <tables> <seed> <out>
pub fn cmd_laws(args: &[String]) {
    let tables: u64 = args[0].parse().expect("tables");
    let seed: u64 = args[1].parse().expect("seed");
    let mut rng = Rng(seed.wrapping_mul(0x9E37_79B9).wrapping_add(0xC08));
    let mut w = std::io::BufWriter::new(std::fs::File::create(&args[2]).expect("create"));
    let sizes: Vec<usize> = (0..FAMILIES).map(family_size).collect();
    const N: usize = 12;
    for id in 0..tables {
        // draw: 3-4 families, up to 3 members each (with repetition, so equal values meet), some wrapped
        let mut pool: Vec<V> = vec![];
        let mut unbuildable: Vec<J> = vec![];
        let mut attempts = 0;
        while pool.len() < N && attempts < 200 {
            attempts += 1;
            let f = rng.below(FAMILIES as u64) as usize;
            let wrapper = if rng.chance(1, 3) { Some(rng.next()) } else { None };
            let take = 2 + rng.below(3) as usize;
            for _ in 0..take {
                if pool.len() >= N {
                    break;
                }
                let m = rng.below(sizes[f] as u64) as usize;
                // members of one family are wrapped the same way, so that they stay comparable.
                // Building the value is itself a use of the code under test: a failure is recorded
                // as an observation (law "constructible"), it does not stop the harness.
                let built = guarded(move || {
                    let v = family(f, m).unwrap();
                    match wrapper {
                        Some(ws) => wrap(&mut Rng(ws), v),
                        None => v,
                    }
                });
                match built {
                    Ok(v) => pool.push(v),
                    Err(msg) => unbuildable.push(json!({"family": f, "member": m, "wrapped": wrapper.is_some(), "msg": msg})),
                }
            }
        }
        let n = pool.len();
        let mut eq = vec![vec![0u8; n]; n];
        let mut cmp = vec![vec![0u8; n]; n];
        let mut pcmp = vec![vec![0u8; n]; n];
        for i in 0..n {
            for j in 0..n {
                let (a, b) = (&pool[i], &pool[j]);
                eq[i][j] = guarded(std::panic::AssertUnwindSafe(|| a == b)).map(|x| x as u8).unwrap_or(2);
                cmp[i][j] = guarded(std::panic::AssertUnwindSafe(|| ord_code(a.cmp(b)))).unwrap_or(4);
                pcmp[i][j] =
                    guarded(std::panic::AssertUnwindSafe(|| a.partial_cmp(b).map(ord_code).unwrap_or(3))).unwrap_or(4);
            }
        }
        let hashes: Vec<u64> = pool.iter().map(hash_of).collect();
        let mut classes: Vec<u64> = vec![];
        let hash: Vec<usize> = hashes
            .iter()
            .map(|h| match classes.iter().position(|c| c == h) {
                Some(p) => p + 1,
                None => {
                    classes.push(*h);
                    classes.len()
                }
            })
            .collect();
        let is_nan = |v: &V| matches!(v, Value::F64(x) if x.is_nan());
        let is_fd = |v: &V| matches!(v, Value::Fd(_));
        let line = json!({
            "id": id, "n": n,
            "dbg": pool.iter().map(|v| { let mut s = format!("{v:?}"); s.truncate(120); s }).collect::<Vec<_>>(),
            "nan": pool.iter().map(|v| contains(v, &is_nan) as u8).collect::<Vec<_>>(),
            "fd": pool.iter().map(|v| contains(v, &is_fd) as u8).collect::<Vec<_>>(),
            "eq": eq, "cmp": cmp, "pcmp": pcmp, "hash": hash,
            "vsig": pool.iter().map(|v| v.value_signature().to_string()).collect::<Vec<_>>(),
            "esig": pool.iter().map(encoded_sig).collect::<Vec<_>>(),
            "clone": pool.iter().map(|v| preserved(v, v.try_clone())).collect::<Vec<_>>(),
            "owned": pool.iter().map(|v| preserved(v, v.try_to_owned().and_then(|o| o.try_clone()).map(Value::from))).collect::<Vec<_>>(),
            "ovrt": pool.iter().map(|v| preserved(v, OwnedValue::try_from(v).map(Value::from))).collect::<Vec<_>>(),
            "into": pool.iter().map(|v| preserved(v, v.try_clone().and_then(|c| c.try_into_owned()).map(Value::from))).collect::<Vec<_>>(),
            "std": std_round_trips(&mut rng),
            "unbuildable": unbuildable,
        });
        writeln!(w, "{line}").unwrap();
    }
    w.flush().unwrap();
}
