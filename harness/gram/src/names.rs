//! C10: observe every construction path of the validated string types of zbus_names and of
//! zvariant::ObjectPath on byte strings (valid UTF-8; the API takes `&str`).
//!
//! One output line per input string:
//!   {"id", "s": [bytes], "fam", "k": {"<kind>": [outcome per path, in the order of `paths()`]}}
//! outcome: 0 = Err, 1 = Ok and the constructed value reads back as the input, 2 = panic,
//!          3 = path not applicable to this input, 5 = Ok but the value reads back differently.
//! `gram obs-names paths` prints the path names per kind (used by the glue for messages only).
//! The server GUID of the property belongs to a zbus-dependent crate and is observed there.
use crate::cases::for_each_case;
use crate::model::{bytes_of, guarded, jbytes, Rng};
use serde_json::{json, Map, Value as J};
use std::borrow::Cow;
use std::io::Write;
use std::sync::Arc;
use zbus_names::{
    BusName, ErrorName, InterfaceName, MemberName, OwnedBusName, OwnedErrorName, OwnedInterfaceName, OwnedMemberName,
    OwnedPropertyName, OwnedUniqueName, OwnedWellKnownName, PropertyName, UniqueName, WellKnownName,
};
use zvariant::serialized::{Context, Data};
use zvariant::{ObjectPath, OwnedObjectPath, OwnedValue, Str, Value, LE};

const NAME_PATHS: &[&str] = &[
    "TryFrom<&str>",
    "TryFrom<String>",
    "TryFrom<Cow<str>>",
    "TryFrom<Arc<str>>",
    "TryFrom<zvariant::Str>",
    "from_static_str",
    "Owned::TryFrom<&str>",
    "Owned::TryFrom<String>",
    "TryFrom<Value>",
    "TryFrom<OwnedValue>",
    "Owned::TryFrom<Value>",
    "Owned::TryFrom<OwnedValue>",
    "Deserialize (D-Bus s)",
    "Owned::Deserialize (D-Bus s)",
    "Deserialize from a variant (D-Bus v)",
];

const PATH_PATHS: &[&str] = &[
    "TryFrom<&str>",
    "TryFrom<String>",
    "TryFrom<Cow<str>>",
    "TryFrom<&[u8]>",
    "from_static_str",
    "Owned::TryFrom<&str>",
    "Owned::TryFrom<String>",
    "Deserialize (D-Bus o)",
    "Owned::Deserialize (D-Bus o)",
    "variant (D-Bus v with signature o) -> Value -> TryFrom<Value>",
    "variant (D-Bus v with signature o) -> Value -> Owned::TryFrom<Value>",
    "Value::Str -> TryFrom<Value> (must be refused: wrong type)",
];

pub const KINDS: &[&str] = &["bus", "unique", "wellknown", "interface", "member", "error", "property", "objpath"];

fn out<T, E>(r: Result<Result<T, E>, String>, same: impl Fn(&T) -> bool) -> u8 {
    match r {
        Ok(Ok(v)) => {
            if same(&v) {
                1
            } else {
                5
            }
        }
        Ok(Err(_)) => 0,
        Err(_) => 2,
    }
}

/// D-Bus encoding of a string-like value (signature s / o): u32 length, bytes, NUL.
fn dbus_string(s: &str) -> Vec<u8> {
    let mut b = (s.len() as u32).to_le_bytes().to_vec();
    b.extend_from_slice(s.as_bytes());
    b.push(0);
    b
}

/// D-Bus encoding of a variant holding a string-like value of signature `sig` ("s" or "o").
fn dbus_variant(sig: &str, s: &str) -> Vec<u8> {
    let mut b = vec![1u8, sig.as_bytes()[0], 0, 0]; // signature "x", NUL, padding to 4
    b.extend_from_slice(&dbus_string(s));
    b
}

macro_rules! name_kind {
    ($fn:ident, $ty:ident, $owned:ident) => {
        fn $fn(s: &str) -> Vec<u8> {
            let same = |v: &$ty<'_>| v.as_str() == s;
            let same_o = |v: &$owned| v.as_str() == s;
            let leaked: &'static str = Box::leak(s.to_string().into_boxed_str());
            let enc = dbus_string(s);
            let enc_v = dbus_variant("s", s);
            vec![
                out(guarded(|| $ty::try_from(s)), same),
                out(guarded(|| $ty::try_from(s.to_string())), same),
                out(guarded(|| $ty::try_from(Cow::Borrowed(s))), same),
                out(guarded(|| $ty::try_from(Arc::<str>::from(s))), same),
                out(guarded(|| $ty::try_from(Str::from(s))), same),
                out(guarded(|| $ty::from_static_str(leaked)), same),
                out(guarded(|| $owned::try_from(s)), same_o),
                out(guarded(|| $owned::try_from(s.to_string())), same_o),
                out(guarded(|| $ty::try_from(Value::from(s))), same),
                out(
                    guarded(|| {
                        let ov = OwnedValue::try_from(Value::from(s)).expect("OwnedValue of a string");
                        $ty::try_from(ov)
                    }),
                    same,
                ),
                out(guarded(|| $owned::try_from(Value::from(s.to_string()))), same_o),
                out(
                    guarded(|| {
                        let ov = OwnedValue::try_from(Value::from(s)).expect("OwnedValue of a string");
                        $owned::try_from(ov)
                    }),
                    same_o,
                ),
                out(
                    guarded(|| {
                        let data = Data::new(enc.as_slice(), Context::new_dbus(LE, 0));
                        let r: zvariant::Result<($ty<'_>, usize)> = data.deserialize();
                        r.map(|(v, _)| v.to_owned())
                    }),
                    |v: &$ty<'static>| v.as_str() == s,
                ),
                out(
                    guarded(|| {
                        let data = Data::new(enc.as_slice(), Context::new_dbus(LE, 0));
                        let r: zvariant::Result<($owned, usize)> = data.deserialize();
                        r.map(|(v, _)| v)
                    }),
                    same_o,
                ),
                out(
                    guarded(|| {
                        let data = Data::new(enc_v.as_slice(), Context::new_dbus(LE, 0));
                        let r: zvariant::Result<(Value<'_>, usize)> = data.deserialize();
                        r.map_err(|e| e.to_string()).and_then(|(v, _)| {
                            let ov = v.try_to_owned().map_err(|e| e.to_string())?;
                            $owned::try_from(ov).map_err(|e| e.to_string())
                        })
                    }),
                    same_o,
                ),
            ]
        }
    };
}

name_kind!(obs_bus, BusName, OwnedBusName);
name_kind!(obs_unique, UniqueName, OwnedUniqueName);
name_kind!(obs_wellknown, WellKnownName, OwnedWellKnownName);
name_kind!(obs_interface, InterfaceName, OwnedInterfaceName);
name_kind!(obs_member, MemberName, OwnedMemberName);
name_kind!(obs_error, ErrorName, OwnedErrorName);
name_kind!(obs_property, PropertyName, OwnedPropertyName);

fn obs_objpath(s: &str) -> Vec<u8> {
    let same = |v: &ObjectPath<'_>| v.as_str() == s;
    let same_o = |v: &OwnedObjectPath| v.as_str() == s;
    let leaked: &'static str = Box::leak(s.to_string().into_boxed_str());
    let enc = dbus_string(s);
    let enc_v = dbus_variant("o", s);
    vec![
        out(guarded(|| ObjectPath::try_from(s)), same),
        out(guarded(|| ObjectPath::try_from(s.to_string())), same),
        out(guarded(|| ObjectPath::try_from(Cow::Borrowed(s))), same),
        out(guarded(|| ObjectPath::try_from(s.as_bytes())), same),
        out(guarded(|| ObjectPath::from_static_str(leaked)), same),
        out(guarded(|| OwnedObjectPath::try_from(s)), same_o),
        out(guarded(|| OwnedObjectPath::try_from(s.to_string())), same_o),
        out(
            guarded(|| {
                let data = Data::new(enc.as_slice(), Context::new_dbus(LE, 0));
                let r: zvariant::Result<(ObjectPath<'_>, usize)> = data.deserialize();
                r.map(|(v, _)| v.to_owned())
            }),
            |v: &ObjectPath<'static>| v.as_str() == s,
        ),
        out(
            guarded(|| {
                let data = Data::new(enc.as_slice(), Context::new_dbus(LE, 0));
                let r: zvariant::Result<(OwnedObjectPath, usize)> = data.deserialize();
                r.map(|(v, _)| v)
            }),
            same_o,
        ),
        out(
            guarded(|| {
                let data = Data::new(enc_v.as_slice(), Context::new_dbus(LE, 0));
                let r: zvariant::Result<(Value<'_>, usize)> = data.deserialize();
                r.and_then(|(v, _)| ObjectPath::try_from(v).map(|p| p.to_owned()))
            }),
            |v: &ObjectPath<'static>| v.as_str() == s,
        ),
        out(
            guarded(|| {
                let data = Data::new(enc_v.as_slice(), Context::new_dbus(LE, 0));
                let r: zvariant::Result<(Value<'_>, usize)> = data.deserialize();
                r.and_then(|(v, _)| OwnedObjectPath::try_from(v))
            }),
            same_o,
        ),
        // a string value is not an object path value, whatever it contains: 0 expected, reported as
        // 3 (not applicable) when refused so that the line format stays "accepted iff valid"
        match guarded(|| ObjectPath::try_from(Value::from(s)).map(|p| p.to_owned())) {
            Ok(Err(_)) => 3,
            Ok(Ok(_)) => 5,
            Err(_) => 2,
        },
    ]
}

pub fn observe(s: &str, kinds: &[&str]) -> J {
    let mut k = Map::new();
    for kind in kinds {
        let v = match *kind {
            "bus" => obs_bus(s),
            "unique" => obs_unique(s),
            "wellknown" => obs_wellknown(s),
            "interface" => obs_interface(s),
            "member" => obs_member(s),
            "error" => obs_error(s),
            "property" => obs_property(s),
            "objpath" => obs_objpath(s),
            other => panic!("unknown kind {other}"),
        };
        k.insert(kind.to_string(), json!(v));
    }
    J::Object(k)
}

/// obs-names <cases> <out>   |   obs-names paths   |   obs-names rand <n> <seed> <out>
pub fn cmd_obs(args: &[String]) {
    if args[0] == "paths" {
        let mut m = Map::new();
        for k in KINDS {
            m.insert(k.to_string(), json!(if *k == "objpath" { PATH_PATHS } else { NAME_PATHS }));
        }
        println!("{}", J::Object(m));
        return;
    }
    if args[0] == "rand" {
        return cmd_rand(&args[1..]);
    }
    let mut w = std::io::BufWriter::with_capacity(1 << 20, std::fs::File::create(&args[1]).expect("create out"));
    let (mut accepted, mut nontrivial, mut skipped) = (0u64, 0u64, 0u64);
    let cases = for_each_case(&args[0], |id, case| {
        let bytes = bytes_of(&case["s"]);
        let Ok(s) = std::str::from_utf8(&bytes) else {
            skipped += 1;
            return;
        };
        let k = observe(s, KINDS);
        let any = k.as_object().unwrap().values().any(|v| v.as_array().unwrap().iter().any(|x| x == 1));
        accepted += any as u64;
        nontrivial += (bytes.len() >= 2) as u64;
        let mut line = Map::new();
        line.insert("id".into(), json!(id));
        line.insert("s".into(), case["s"].clone());
        line.insert("fam".into(), case.get("fam").cloned().unwrap_or(json!("")));
        line.insert("k".into(), k);
        writeln!(w, "{}", J::Object(line)).unwrap();
    });
    w.flush().unwrap();
    println!(
        "{}",
        json!({"cases": cases, "accepted_by_some_kind": accepted, "nontrivial": nontrivial, "skipped_not_utf8": skipped})
    );
}

/// Seeded random names: drawn from the grammars (elements over the allowed characters joined by
/// '.' or '/', optional ':' prefix), half of them mutated; lengths up to ~300 bytes with a cluster
/// around the 255-byte limit.
fn cmd_rand(args: &[String]) {
    let n: u64 = args[0].parse().expect("n");
    let seed: u64 = args[1].parse().expect("seed");
    let mut rng = Rng(seed.wrapping_mul(0x9E37_79B9).wrapping_add(0xC10));
    let mut w = std::io::BufWriter::new(std::fs::File::create(&args[2]).expect("create"));
    const FIRST: &[u8] = b"abzAMZ_";
    const REST: &[u8] = b"abzAMZ_0189";
    const JUNK: &[&str] = &["-", ".", ":", "/", " ", "é", "0", "@", "..", "//", "\u{7f}", "€"];
    for id in 0..n {
        let style = rng.below(5); // 0 member, 1 dotted, 2 unique, 3 path, 4 dotted with hyphens / digits
        let target = match rng.below(6) {
            0 => 250 + rng.below(10) as usize,
            1 => 60 + rng.below(240) as usize,
            _ => 1 + rng.below(24) as usize,
        };
        let mut s = String::new();
        if style == 2 {
            s.push(':');
        }
        if style == 3 {
            s.push('/');
        }
        let sep = if style == 3 { '/' } else { '.' };
        loop {
            let elen = 1 + rng.below(if style == 0 { 40 } else { 8 }) as usize;
            for i in 0..elen {
                let set = if i == 0 && style != 2 && style != 4 { FIRST } else { REST };
                let c = *rng.pick(set) as char;
                s.push(if style == 4 && rng.chance(1, 6) { '-' } else { c });
            }
            if s.len() >= target {
                break;
            }
            if style != 0 {
                s.push(sep);
            }
        }
        if rng.chance(1, 3) {
            // cut to the exact target so that both sides of the 255-byte limit are hit
            while s.len() > target {
                s.pop();
            }
        }
        if rng.chance(1, 2) {
            let mut pos = rng.below(s.len() as u64 + 1) as usize;
            while !s.is_char_boundary(pos) {
                pos -= 1;
            }
            match rng.below(3) {
                0 => s.insert_str(pos, *rng.pick(JUNK)),
                1 => {
                    if pos < s.len() {
                        s.remove(pos);
                    }
                }
                _ => {
                    s.truncate(pos);
                    s.push_str(*rng.pick(JUNK));
                }
            }
        }
        writeln!(w, "{}", json!({"id": id, "s": jbytes(s.as_bytes()), "fam": "rand"})).unwrap();
    }
    w.flush().unwrap();
}
