pub fn cmd_obs(_args: &[String]) {}
