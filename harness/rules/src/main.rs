fn main() {}
