//! Conformance harness for match rules (C21, C22), addresses (C23) and server GUIDs (C10, GUID part).
//! Usage: rules <command> [args...]; every command writes one ndjson line per call of the real code.
mod addr;
mod guid;
mod matchrule;
mod util;

fn main() {
    // panics inside the code under test are data: keep them quiet, they are reported per case
    std::panic::set_hook(Box::new(|_| {}));
    let args: Vec<String> = std::env::args().collect();
    if args.len() < 2 {
        eprintln!("usage: rules <command> [args...]");
        std::process::exit(2);
    }
    let rest = &args[2..];
    match args[1].as_str() {
        "match-obs" => matchrule::cmd_match_obs(rest),
        "match-rand" => matchrule::cmd_match_rand(rest),
        "rulestr-obs" => matchrule::cmd_rulestr_obs(rest),
        "rulestr-rand" => matchrule::cmd_rulestr_rand(rest),
        "addr-obs" => addr::cmd_addr_obs(rest),
        "addr-rand" => addr::cmd_addr_rand(rest),
        "guid-obs" => guid::cmd_guid_obs(rest),
        other => {
            eprintln!("unknown command {other}");
            std::process::exit(2);
        }
    }
}
