//! C23: observation of zbus::Address (Display, FromStr, ==, the parsed fields).
//!
//! Abstract address model: see spec/AddrCodec.tla (all values are byte arrays, *unescaped*).
use crate::util::*;
use serde_json::{json, Value as J};
use std::ffi::OsString;
use std::os::unix::ffi::{OsStrExt, OsStringExt};
use std::path::PathBuf;
use std::str::FromStr;
use zbus::address::transport::{Tcp, TcpTransportFamily, Transport, Unix, UnixSocket, Unixexec};
use zbus::address::Address;

fn os(j: &J) -> OsString {
    OsString::from_vec(bytes_of(j))
}

/// Build the address value through the public constructors.
pub fn build_addr(a: &J) -> Result<Address, String> {
    let t = match a["transport"].as_str().unwrap() {
        "unix" => {
            let v = os(&a["value"]);
            Transport::Unix(Unix::new(match a["kind"].as_str().unwrap() {
                "path" => UnixSocket::File(PathBuf::from(v)),
                "abstract" => UnixSocket::Abstract(v),
                "dir" => UnixSocket::Dir(PathBuf::from(v)),
                "tmpdir" => UnixSocket::TmpDir(PathBuf::from(v)),
                o => return Err(format!("unix kind {o}")),
            }))
        }
        "unixexec" => {
            let arg0 = if has(a, "argv0") { Some(os(&a["argv0"])) } else { None };
            let args = a["args"].as_array().unwrap().iter().map(os).collect();
            Transport::Unixexec(Unixexec::new(PathBuf::from(os(&a["path"])), arg0, args))
        }
        "tcp" => {
            let host = String::from_utf8(bytes_of(&a["host"])).map_err(|e| e.to_string())?;
            let mut t = Tcp::new(&host, a["port"].as_u64().unwrap() as u16);
            if has(a, "family") {
                t = t.set_family(Some(match a["family"].as_str().unwrap() {
                    "ipv4" => TcpTransportFamily::Ipv4,
                    _ => TcpTransportFamily::Ipv6,
                }));
            }
            if has(a, "bind") {
                t = t.set_bind(Some(String::from_utf8(bytes_of(&a["bind"])).map_err(|e| e.to_string())?));
            }
            if has(a, "noncefile") {
                t = t.set_nonce_file(Some(bytes_of(&a["noncefile"])));
            }
            Transport::Tcp(t)
        }
        #[cfg(feature = "vsock")]
        "vsock" => Transport::Vsock(zbus::address::transport::Vsock::new(
            a["cid"].as_u64().unwrap() as u32,
            a["port"].as_u64().unwrap() as u32,
        )),
        o => return Err(format!("transport {o} not available in this build")),
    };
    let mut addr = Address::new(t);
    if has(a, "guid") {
        let g = zbus::Guid::try_from(str_of(&a["guid"]).as_str()).map_err(|e| e.to_string())?.to_owned();
        addr = addr.set_guid(g).map_err(|e| e.to_string())?;
    }
    Ok(addr)
}

/// Abstract form of an address, read through the public getters.
pub fn abstract_addr(a: &Address) -> J {
    let mut o = match a.transport() {
        Transport::Unix(u) => {
            let (k, v) = match u.path() {
                UnixSocket::File(p) => ("path", p.as_os_str().as_bytes().to_vec()),
                UnixSocket::Abstract(p) => ("abstract", p.as_bytes().to_vec()),
                UnixSocket::Dir(p) => ("dir", p.as_os_str().as_bytes().to_vec()),
                UnixSocket::TmpDir(p) => ("tmpdir", p.as_os_str().as_bytes().to_vec()),
                _ => ("?", vec![]),
            };
            json!({"transport": "unix", "kind": k, "value": jbytes(&v)})
        }
        Transport::Unixexec(u) => {
            let mut o = json!({"transport": "unixexec", "path": jbytes(u.path().as_os_str().as_bytes()),
                "args": u.args().iter().map(|x| jbytes(x.as_bytes())).collect::<Vec<_>>()});
            if let Some(a0) = u.arg0() {
                o["argv0"] = jbytes(a0.as_bytes());
            }
            o
        }
        Transport::Tcp(t) => {
            let mut o = json!({"transport": "tcp", "host": jbytes(t.host().as_bytes()), "port": t.port()});
            if let Some(f) = t.family() {
                o["family"] = J::from(match f {
                    TcpTransportFamily::Ipv4 => "ipv4",
                    TcpTransportFamily::Ipv6 => "ipv6",
                });
            }
            if let Some(b) = t.bind() {
                o["bind"] = jbytes(b.as_bytes());
            }
            if let Some(n) = t.nonce_file() {
                o["noncefile"] = jbytes(n);
            }
            o
        }
        #[cfg(feature = "vsock")]
        Transport::Vsock(v) => json!({"transport": "vsock", "cid": v.cid(), "port": v.port()}),
        _ => json!({"transport": "?"}),
    };
    if let Some(g) = a.guid() {
        o["guid"] = jbytes(g.as_str().as_bytes());
    }
    o
}

fn parse_outcome(s: &str, orig: Option<&Address>) -> J {
    match guarded(|| Address::from_str(s)) {
        Ok(Ok(a2)) => {
            let mut o = json!({"ok": true, "addr": abstract_addr(&a2), "str2": jbytes(a2.to_string().as_bytes())});
            if let Some(a) = orig {
                o["eq"] = J::from(&a2 == a);
            }
            o
        }
        Ok(Err(e)) => json!({"ok": false, "err": e.to_string()}),
        Err(p) => json!({"ok": false, "panic": p}),
    }
}

fn observe_addr(a: &J) -> J {
    let addr = match build_addr(a) {
        Ok(x) => x,
        Err(e) => return json!({"built": false, "err": e}),
    };
    let s = addr.to_string();
    json!({"built": true, "str": jbytes(s.as_bytes()), "text": s, "self": abstract_addr(&addr),
           "reparse": parse_outcome(&s, Some(&addr))})
}

/// addr-obs <cases.ndjson> <out.ndjson>
pub fn cmd_addr_obs(args: &[String]) {
    let mut out = Out::create(&args[1]);
    for c in read_cases(&args[0]) {
        let line = if c.get("s").is_some() {
            // a stored ParseStr case (replay)
            let s = str_of(&c["s"]);
            json!({"ev": "ParseStr", "id": c["id"], "s": c["s"], "text": s, "parsed": parse_outcome(&s, None)})
        } else {
            let o = observe_addr(&c["addr"]);
            let mut line = json!({"ev": "Addr", "id": c["id"], "addr": c["addr"]});
            for (k, v) in o.as_object().unwrap() {
                line[k] = v.clone();
            }
            line
        };
        out.line(&line);
    }
}

// ------------------------------------------------------------------ random values and strings
fn rand_bytes(g: &mut Rng, utf8: bool) -> Vec<u8> {
    const POOL: [&str; 10] = ["a", "/tmp/x", "a b", "a,b", "a%b", "é", "-_/.\\*", "=", ";:", "%41"];
    match g.below(4) {
        0 => g.pick_str(&POOL).as_bytes().to_vec(),
        1 => {
            // plain path-like
            let n = 1 + g.below(3);
            let mut s = String::new();
            for _ in 0..n {
                s.push('/');
                s.push_str(g.pick_str(&["tmp", "run", "dbus-1", "x.sock", "user_1"]));
            }
            s.into_bytes()
        }
        _ => {
            let n = 1 + g.below(6);
            let mut v = vec![];
            for _ in 0..n {
                if utf8 {
                    let c = *g.pick(&['a', 'Z', '0', ' ', ',', '%', '=', ':', ';', '~', '\u{e9}', '\u{20ac}', '\t', '\u{7f}', '\\', '*', '.', '-', '_', '/', '\u{1}']);
                    let mut buf = [0u8; 4];
                    v.extend_from_slice(c.encode_utf8(&mut buf).as_bytes());
                } else {
                    v.push(g.below(256) as u8);
                }
            }
            v
        }
    }
}

const GUIDS: [&str; 3] = ["0123456789abcdef0123456789abcdef", "00000000000000000000000000000000", "ABCDEFabcdef01234567890123456789"];

fn rand_addr(g: &mut Rng, for_string: bool) -> J {
    let mut a = match g.below(if cfg!(feature = "vsock") { 8 } else { 7 }) {
        0 | 1 | 2 => json!({"transport": "unix", "kind": g.pick_str(&["path", "abstract", "dir", "tmpdir"]), "value": jbytes(&rand_bytes(g, false))}),
        3 | 4 => {
            // now and then enough arguments for two-digit keys (argv10 ...)
            let n = if g.chance(1, 6) { 9 + g.below(6) } else { g.below(4) };
            let args: Vec<J> = (0..n).map(|_| jbytes(&rand_bytes(g, false))).collect();
            let mut a = json!({"transport": "unixexec", "path": jbytes(&rand_bytes(g, false)), "args": args});
            if g.chance(1, 2) {
                a["argv0"] = jbytes(&rand_bytes(g, false));
            }
            a
        }
        5 | 6 => {
            let host = match g.below(4) {
                0 => "localhost".as_bytes().to_vec(),
                1 => "::1".as_bytes().to_vec(),
                2 => "127.0.0.1".as_bytes().to_vec(),
                _ => rand_bytes(g, true),
            };
            let mut a = json!({"transport": "tcp", "host": jbytes(&host), "port": *g.pick(&[0u64, 1, 80, 4142, 65535])});
            if g.chance(1, 2) {
                a["family"] = J::from(g.pick_str(&["ipv4", "ipv6"]));
            }
            if g.chance(1, 2) {
                a["noncefile"] = jbytes(&rand_bytes(g, false));
            }
            // zbus documents bind= as not supported by its reader; only values built through the API carry it
            if !for_string && g.chance(1, 6) {
                a["bind"] = jbytes(&rand_bytes(g, true));
            }
            a
        }
        _ => json!({"transport": "vsock", "cid": g.below(100000), "port": g.below(100000)}),
    };
    if g.chance(1, 4) {
        a["guid"] = jbytes(g.pick_str(&GUIDS).as_bytes());
    }
    a
}

fn opt_esc(b: u8) -> bool {
    b.is_ascii_alphanumeric() || matches!(b, b'-' | b'_' | b'/' | b'.' | b'\\' | b'*')
}

/// A valid escaping of `v`: mandatory escapes always, optional ones at random, hex in either case.
fn esc(g: &mut Rng, v: &[u8], optional: bool) -> String {
    let mut s = String::new();
    for &b in v {
        if !opt_esc(b) || (optional && g.chance(1, 4)) {
            if g.chance(1, 2) {
                s.push_str(&format!("%{b:02x}"));
            } else {
                s.push_str(&format!("%{b:02X}"));
            }
        } else {
            s.push(b as char);
        }
    }
    s
}

/// One of the valid spellings of the address: random key order, random optional escapes.
fn spell(g: &mut Rng, a: &J) -> String {
    let mut kv: Vec<(String, String)> = vec![];
    let t = a["transport"].as_str().unwrap();
    let tr = match t {
        "unix" => {
            kv.push((a["kind"].as_str().unwrap().into(), esc(g, &bytes_of(&a["value"]), true)));
            "unix"
        }
        "unixexec" => {
            kv.push(("path".into(), esc(g, &bytes_of(&a["path"]), true)));
            if has(a, "argv0") {
                kv.push(("argv0".into(), esc(g, &bytes_of(&a["argv0"]), true)));
            }
            for (i, x) in a["args"].as_array().unwrap().iter().enumerate() {
                kv.push((format!("argv{}", i + 1), esc(g, &bytes_of(x), true)));
            }
            "unixexec"
        }
        "tcp" => {
            kv.push(("host".into(), esc(g, &bytes_of(&a["host"]), true)));
            kv.push(("port".into(), a["port"].as_u64().unwrap().to_string()));
            if has(a, "family") {
                kv.push(("family".into(), a["family"].as_str().unwrap().into()));
            }
            if has(a, "noncefile") {
                kv.push(("noncefile".into(), esc(g, &bytes_of(&a["noncefile"]), true)));
                "nonce-tcp"
            } else {
                "tcp"
            }
        }
        _ => {
            kv.push(("cid".into(), a["cid"].as_u64().unwrap().to_string()));
            kv.push(("port".into(), a["port"].as_u64().unwrap().to_string()));
            "vsock"
        }
    };
    if has(a, "guid") {
        kv.push(("guid".into(), str_of(&a["guid"])));
    }
    // shuffle
    for i in (1..kv.len()).rev() {
        let j = g.below(i as u64 + 1) as usize;
        kv.swap(i, j);
    }
    format!("{tr}:{}", kv.iter().map(|(k, v)| format!("{k}={v}")).collect::<Vec<_>>().join(","))
}

/// addr-rand <n> <seed> <out.ndjson>: (a) random address values (arbitrary bytes) through
/// Display / FromStr; (b) random valid address strings through FromStr.
pub fn cmd_addr_rand(args: &[String]) {
    let n: u64 = args[0].parse().unwrap();
    let mut g = Rng(args[1].parse::<u64>().unwrap() ^ 0xC23);
    let mut out = Out::create(&args[2]);
    for i in 0..n {
        if i % 2 == 0 {
            let a = rand_addr(&mut g, false);
            let o = observe_addr(&a);
            let mut line = json!({"ev": "Addr", "addr": a});
            for (k, v) in o.as_object().unwrap() {
                line[k] = v.clone();
            }
            out.line_id(line);
        } else {
            let a = rand_addr(&mut g, true);
            // empty values cannot be written (the grammar of zbus's reader and the reference
            // implementation want at least one byte after '='); skip those
            let s = spell(&mut g, &a);
            out.line_id(json!({"ev": "ParseStr", "s": jbytes(s.as_bytes()), "text": s, "meant": a, "parsed": parse_outcome(&s, None)}));
        }
    }
}
