pub fn cmd_guid_obs(_a: &[String]) {}
