//! C10 (server GUID part): every way to construct a zbus::Guid / OwnedGuid from a string.
use crate::util::*;
use serde_json::{json, Value as J};
use std::borrow::Cow;
use std::str::FromStr;
use zbus::{Guid, OwnedGuid};
use zvariant::serialized::Context;
use zvariant::{Str, LE};

fn opt_esc(b: u8) -> bool {
    b.is_ascii_alphanumeric() || matches!(b, b'-' | b'_' | b'/' | b'.' | b'\\' | b'*')
}

fn path(name: &str, r: Result<Option<String>, String>, s: &str) -> J {
    match r {
        Ok(Some(v)) => json!({"p": name, "ok": true, "same": v == s}),
        Ok(None) => json!({"p": name, "ok": false, "same": false}),
        Err(p) => json!({"p": name, "ok": false, "same": false, "panic": p}),
    }
}

/// All construction paths on one candidate (valid UTF-8) string.
pub fn observe(s: &str) -> Vec<J> {
    let mut v = vec![];
    v.push(path("TryFrom<&str>", guarded(|| Guid::try_from(s).ok().map(|g| g.as_str().to_string())), s));
    v.push(path("TryFrom<String>", guarded(|| Guid::try_from(s.to_string()).ok().map(|g| g.as_str().to_string())), s));
    v.push(path("TryFrom<Str>", guarded(|| Guid::try_from(Str::from(s)).ok().map(|g| g.as_str().to_string())), s));
    v.push(path("TryFrom<Cow<str>>", guarded(|| Guid::try_from(Cow::Borrowed(s)).ok().map(|g| g.as_str().to_string())), s));
    v.push(path("FromStr", guarded(|| Guid::from_str(s).ok().map(|g| g.as_str().to_string())), s));
    let leaked: &'static str = Box::leak(s.to_string().into_boxed_str());
    v.push(path("from_static_str", guarded(|| Guid::from_static_str(leaked).ok().map(|g| g.as_str().to_string())), s));
    // serde: from the D-Bus encoding of the string ...
    let ctx = Context::new_dbus(LE, 0);
    if let Ok(data) = zvariant::to_bytes(ctx, s) {
        v.push(path("Deserialize Guid (D-Bus)", guarded(|| data.deserialize::<Guid<'_>>().ok().map(|(g, _)| g.as_str().to_string())), s));
        v.push(path("Deserialize OwnedGuid (D-Bus)", guarded(|| data.deserialize::<OwnedGuid>().ok().map(|(g, _)| g.as_str().to_string())), s));
    }
    // ... and from JSON
    if let Ok(js) = serde_json::to_string(s) {
        v.push(path("Deserialize OwnedGuid (JSON)", guarded(|| serde_json::from_str::<OwnedGuid>(&js).ok().map(|g| g.as_str().to_string())), s));
    }
    // the guid= key of an address (only candidates that may stand unescaped in an address)
    if !s.is_empty() && s.bytes().all(opt_esc) {
        let a = format!("unix:path=/x,guid={s}");
        v.push(path(
            "Address guid=",
            guarded(|| zbus::Address::from_str(&a).ok().map(|a| a.guid().map(|g| g.as_str().to_string()).unwrap_or_default())),
            s,
        ));
    }
    v
}

/// guid-obs <cases.ndjson> <out.ndjson> [<n random> <seed>]
pub fn cmd_guid_obs(args: &[String]) {
    let mut out = Out::create(&args[1]);
    let run = |bytes: Vec<u8>, id: J, out: &mut Out| {
        match String::from_utf8(bytes.clone()) {
            Ok(s) => out.line(&json!({"ev": "Guid", "id": id, "s": jbytes(&bytes), "text": s, "paths": observe(&s)})),
            // not expressible as &str: no construction path takes it
            Err(_) => out.line(&json!({"ev": "Guid", "id": id, "s": jbytes(&bytes), "paths": []})),
        }
    };
    let mut n = 0u64;
    for c in read_cases(&args[0]) {
        run(bytes_of(&c["s"]), c["id"].clone(), &mut out);
        n += 1;
    }
    if args.len() >= 4 {
        // seeded random near-valid candidates: 32 +- 1 characters over hex digits with a few strays
        let count: u64 = args[2].parse().unwrap();
        let mut g = Rng(args[3].parse::<u64>().unwrap() ^ 0xC10);
        const HEX: &[u8] = b"0123456789abcdefABCDEF";
        const STRAY: &[u8] = b"gG-{}:/@` zZ+.";
        for _ in 0..count {
            let len = match g.below(8) {
                0 => 31,
                1 => 33,
                2 => 36,
                _ => 32,
            };
            let strays = g.below(3);
            let mut b: Vec<u8> = (0..len).map(|_| HEX[g.below(HEX.len() as u64) as usize]).collect();
            for _ in 0..strays {
                let i = g.below(len) as usize;
                b[i] = STRAY[g.below(STRAY.len() as u64) as usize];
            }
            if len == 36 && g.chance(1, 2) {
                for i in [8, 13, 18, 23] {
                    b[i] = b'-';
                }
            }
            run(b, J::from(n), &mut out);
            n += 1;
        }
    }
}
