//! C21 / C22: observation of zbus::MatchRule (matching, Display, TryFrom<&str>).
//!
//! Abstract rule / message model: see spec/MatchSem.tla (strings are byte arrays).
use crate::util::*;
use serde_json::{json, Value as J};
use zbus::message::{Message, Type};
use zbus::match_rule::PathSpec;
use zbus::MatchRule;
use zvariant::{ObjectPath, Signature, StructureBuilder, Value};

fn type_of(s: &str) -> Type {
    match s {
        "signal" => Type::Signal,
        "method_call" => Type::MethodCall,
        "method_return" => Type::MethodReturn,
        "error" => Type::Error,
        o => panic!("message type {o}"),
    }
}

fn type_name(t: Type) -> &'static str {
    match t {
        Type::Signal => "signal",
        Type::MethodCall => "method_call",
        Type::MethodReturn => "method_return",
        Type::Error => "error",
    }
}

/// Build the rule through the public builder API.
pub fn build_rule(r: &J) -> Result<MatchRule<'static>, String> {
    let e = |x: zbus::Error| x.to_string();
    let mut b = MatchRule::builder();
    if has(r, "type") {
        b = b.msg_type(type_of(r["type"].as_str().unwrap()));
    }
    if has(r, "sender") {
        b = b.sender(str_of(&r["sender"])).map_err(e)?;
    }
    if has(r, "interface") {
        b = b.interface(str_of(&r["interface"])).map_err(e)?;
    }
    if has(r, "member") {
        b = b.member(str_of(&r["member"])).map_err(e)?;
    }
    if has(r, "path") {
        b = b.path(str_of(&r["path"])).map_err(e)?;
    }
    if has(r, "path_namespace") {
        b = b.path_namespace(str_of(&r["path_namespace"])).map_err(e)?;
    }
    if has(r, "destination") {
        b = b.destination(str_of(&r["destination"])).map_err(e)?;
    }
    if let Some(ops) = r.get("ops").and_then(|a| a.as_array()) {
        // the builder calls as given (any order, indices may repeat); `args` / `arg_paths` then hold what they denote
        for a in ops {
            let i = a["i"].as_u64().unwrap() as u8;
            b = if a["k"] == "arg" { b.arg(i, str_of(&a["v"])) } else { b.arg_path(i, str_of(&a["v"])) }.map_err(e)?;
        }
    } else {
        if let Some(args) = r.get("args").and_then(|a| a.as_array()) {
            for a in args {
                b = b.arg(a["i"].as_u64().unwrap() as u8, str_of(&a["v"])).map_err(e)?;
            }
        }
        if let Some(args) = r.get("arg_paths").and_then(|a| a.as_array()) {
            for a in args {
                b = b.arg_path(a["i"].as_u64().unwrap() as u8, str_of(&a["v"])).map_err(e)?;
            }
        }
    }
    if has(r, "arg0ns") {
        b = b.arg0ns(str_of(&r["arg0ns"])).map_err(e)?;
    }
    Ok(b.build().into_owned())
}

/// Abstract form of a rule, read through the public getters.
pub fn abstract_rule(r: &MatchRule<'_>) -> J {
    let mut o = serde_json::Map::new();
    if let Some(t) = r.msg_type() {
        o.insert("type".into(), J::from(type_name(t)));
    }
    if let Some(s) = r.sender() {
        o.insert("sender".into(), jbytes(s.as_str().as_bytes()));
    }
    if let Some(s) = r.interface() {
        o.insert("interface".into(), jbytes(s.as_str().as_bytes()));
    }
    if let Some(s) = r.member() {
        o.insert("member".into(), jbytes(s.as_str().as_bytes()));
    }
    match r.path_spec() {
        Some(PathSpec::Path(p)) => {
            o.insert("path".into(), jbytes(p.as_str().as_bytes()));
        }
        Some(PathSpec::PathNamespace(p)) => {
            o.insert("path_namespace".into(), jbytes(p.as_str().as_bytes()));
        }
        None => (),
    }
    if let Some(s) = r.destination() {
        o.insert("destination".into(), jbytes(s.as_str().as_bytes()));
    }
    let args: Vec<J> = r.args().iter().map(|(i, s)| json!({"i": i, "v": jbytes(s.as_str().as_bytes())})).collect();
    o.insert("args".into(), J::Array(args));
    let aps: Vec<J> = r.arg_paths().iter().map(|(i, s)| json!({"i": i, "v": jbytes(s.as_str().as_bytes())})).collect();
    o.insert("arg_paths".into(), J::Array(aps));
    if let Some(s) = r.arg0ns() {
        o.insert("arg0ns".into(), jbytes(s.as_str().as_bytes()));
    }
    J::Object(o)
}

fn arg_value(a: &J) -> Result<Value<'static>, String> {
    let s = || str_of(&a["s"]);
    Ok(match a["k"].as_str().unwrap() {
        "s" => Value::from(s()),
        "o" => Value::ObjectPath(ObjectPath::try_from(s()).map_err(|e| e.to_string())?),
        "g" => Value::Signature(Signature::try_from(s().as_str()).map_err(|e| e.to_string())?),
        "v" => Value::Value(Box::new(Value::from(s()))),
        "u" => Value::U32(7),
        "y" => Value::U8(7),
        "as" => Value::from(vec![s()]),
        o => return Err(format!("argument kind {o}")),
    })
}

/// Build the message through zbus's message builders.  `single` asks for a one-argument body to be
/// given as the bare value instead of a one-field structure (same wire form).
pub fn build_msg(m: &J, single: bool) -> Result<Message, String> {
    let e = |x: zbus::Error| x.to_string();
    let ty = m["type"].as_str().unwrap();
    let opt = |f: &str| if has(m, f) { Some(str_of(&m[f])) } else { None };
    let (path, iface, member) = (opt("path"), opt("interface"), opt("member"));
    let mut b = match ty {
        "signal" => Message::signal(
            path.clone().ok_or("signal without path")?,
            iface.clone().ok_or("signal without interface")?,
            member.clone().ok_or("signal without member")?,
        )
        .map_err(e)?,
        "method_call" => {
            Message::method_call(path.clone().ok_or("call without path")?, member.clone().ok_or("call without member")?)
                .map_err(e)?
        }
        "method_return" | "error" => {
            // a reply needs the header of a call; the call has no sender, so no destination is implied
            let call = Message::method_call("/x", "X").map_err(e)?.build(&()).map_err(e)?;
            let hdr = call.header();
            if ty == "error" {
                Message::error(&hdr, "a.E").map_err(e)?
            } else {
                Message::method_return(&hdr).map_err(e)?
            }
        }
        o => return Err(format!("message type {o}")),
    };
    if ty != "signal" {
        if let Some(i) = iface {
            b = b.interface(i).map_err(e)?;
        }
    }
    if ty == "method_return" || ty == "error" {
        if let Some(p) = path {
            b = b.path(p).map_err(e)?;
        }
        if let Some(x) = member {
            b = b.member(x).map_err(e)?;
        }
    }
    if let Some(s) = opt("sender") {
        b = b.sender(s).map_err(e)?;
    }
    if let Some(d) = opt("destination") {
        b = b.destination(d).map_err(e)?;
    }
    let body = m["body"].as_array().unwrap();
    if body.is_empty() {
        return b.build(&()).map_err(e);
    }
    if single && body.len() == 1 {
        let v = arg_value(&body[0])?;
        return match &v {
            Value::Str(s) => b.build(&s.as_str()),
            Value::ObjectPath(p) => b.build(p),
            Value::U32(u) => b.build(u),
            Value::Signature(s) => b.build(s),
            other => {
                let st = StructureBuilder::new().append_field(other.try_clone().map_err(|x| x.to_string())?).build().map_err(|x| x.to_string())?;
                b.build(&st)
            }
        }
        .map_err(e);
    }
    let mut sb = StructureBuilder::new();
    for a in body {
        sb = sb.append_field(arg_value(a)?);
    }
    let st = sb.build().map_err(|x| x.to_string())?;
    b.build(&st).map_err(e)
}

fn observe_match(rule: &J, msg: &J, single: bool) -> J {
    let r = match build_rule(rule) {
        Ok(r) => r,
        Err(e) => return json!({"built": false, "err": format!("rule: {e}")}),
    };
    let m = match build_msg(msg, single) {
        Ok(m) => m,
        Err(e) => return json!({"built": false, "err": format!("msg: {e}")}),
    };
    let got = match guarded(|| r.matches(&m)) {
        Ok(Ok(true)) => "true".to_string(),
        Ok(Ok(false)) => "false".to_string(),
        Ok(Err(e)) => format!("err: {e}"),
        Err(p) => format!("panic: {p}"),
    };
    json!({"built": true, "got": got, "sig": m.body().signature().to_string()})
}

/// match-obs <cases.ndjson> <out.ndjson>: one `Match` line per TLC-enumerated (rule, message) pair.
pub fn cmd_match_obs(args: &[String]) {
    let mut out = Out::create(&args[1]);
    for c in read_cases(&args[0]) {
        let single = c.get("single").and_then(|x| x.as_bool()).unwrap_or(false);
        let o = observe_match(&c["rule"], &c["msg"], single);
        let mut line = json!({"ev": "Match", "id": c["id"], "rule": c["rule"], "msg": c["msg"], "single": single});
        for (k, v) in o.as_object().unwrap() {
            line[k] = v.clone();
        }
        out.line(&line);
    }
}

// ------------------------------------------------------------------ random near-miss pairs (C21)
fn b(s: &str) -> J {
    jbytes(s.as_bytes())
}

const SEGS: [&str; 4] = ["a", "b", "ab", "a_b"];
const IFACES: [&str; 4] = ["a.I", "a.J", "a.I.K", "b.I"];
const MEMBERS: [&str; 3] = ["M", "N", "Mm"];
const UNIQ: [&str; 3] = [":1.1", ":1.2", ":1.10"];
const WELL: [&str; 3] = ["a.b", "a.b.c", "org.x"];
const NAMES: [&str; 8] = ["a.b", "a.bc", "a.b.c", "a.b.c.d", "org.x", "org.x.y", "org.xy", ":1.1"];
const TYPES: [&str; 4] = ["signal", "method_call", "method_return", "error"];

fn rand_path(g: &mut Rng) -> String {
    let d = g.below(4);
    if d == 0 {
        return "/".into();
    }
    let mut s = String::new();
    for _ in 0..d {
        s.push('/');
        s.push_str(g.pick_str(&SEGS));
    }
    s
}

/// A string near `p` in the path-like sense (used for message paths and path-like arguments).
fn near_path(g: &mut Rng, p: &str, allow_trailing: bool) -> String {
    let parent = |p: &str| match p.rfind('/') {
        Some(0) | None => "/".to_string(),
        Some(i) => p[..i].to_string(),
    };
    match g.below(if allow_trailing { 8 } else { 5 }) {
        0 => p.to_string(),
        1 => format!("{}{}", if p == "/" { "/" } else { p }, if p == "/" { "a" } else { "b" }), // sibling with the same string prefix
        2 => format!("{}/{}", if p == "/" { "" } else { p }, g.pick_str(&SEGS)),                   // child
        3 => parent(p),
        4 => rand_path(g),
        5 => {
            // with a trailing slash (only a STRING can look like this)
            if p == "/" { "/".into() } else { format!("{p}/") }
        }
        6 => {
            let q = parent(p);
            if q == "/" { q } else { format!("{q}/") }
        }
        _ => format!("{}/{}/", if p == "/" { "" } else { p }, g.pick_str(&SEGS)),
    }
}

fn is_obj_path(s: &str) -> bool {
    ObjectPath::try_from(s).is_ok()
}

fn rand_rule(g: &mut Rng) -> J {
    let mut r = serde_json::Map::new();
    if g.chance(1, 3) {
        r.insert("type".into(), J::from(g.pick_str(&TYPES)));
    }
    if g.chance(1, 3) {
        let s = if g.chance(1, 3) { g.pick_str(&WELL) } else { g.pick_str(&UNIQ) };
        r.insert("sender".into(), b(s));
    }
    if g.chance(1, 3) {
        r.insert("interface".into(), b(g.pick_str(&IFACES)));
    }
    if g.chance(1, 3) {
        r.insert("member".into(), b(g.pick_str(&MEMBERS)));
    }
    if g.chance(1, 2) {
        let k = if g.chance(1, 2) { "path" } else { "path_namespace" };
        r.insert(k.into(), b(&rand_path(g)));
    }
    if g.chance(1, 4) {
        r.insert("destination".into(), b(g.pick_str(&UNIQ)));
    }
    let mut args = vec![];
    let mut aps = vec![];
    for i in 0..3u64 {
        match g.below(6) {
            0 => {
                let v = match g.below(4) {
                    0 => rand_path(g),
                    1 => {
                        let p = rand_path(g);
                        near_path(g, &p, true)
                    }
                    2 => g.pick_str(&NAMES).to_string(),
                    _ => String::new(),
                };
                args.push(json!({"i": i, "v": b(&v)}));
            }
            1 => aps.push(json!({"i": i, "v": b(&rand_path(g))})),
            _ => (),
        }
    }
    let arg0_taken = args.iter().chain(aps.iter()).any(|a| a["i"] == 0);
    r.insert("args".into(), J::Array(args));
    r.insert("arg_paths".into(), J::Array(aps));
    if !arg0_taken && g.chance(1, 4) {
        r.insert("arg0ns".into(), b(g.pick_str(&["a.b", "a", "org.x", "org"])));
    }
    J::Object(r)
}

/// A message that satisfies every key of the rule, then 0..2 perturbations towards a near miss.
fn near_msg(g: &mut Rng, r: &J) -> J {
    let s = |f: &str| str_of(&r[f]);
    let mut ty = if has(r, "type") { r["type"].as_str().unwrap().to_string() } else { "signal".to_string() };
    let mut sender = Some(if has(r, "sender") && s("sender").starts_with(':') { s("sender") } else { g.pick_str(&UNIQ).to_string() });
    let mut iface = Some(if has(r, "interface") { s("interface") } else { g.pick_str(&IFACES).to_string() });
    let mut member = Some(if has(r, "member") { s("member") } else { g.pick_str(&MEMBERS).to_string() });
    let rpath = if has(r, "path") { Some(s("path")) } else if has(r, "path_namespace") { Some(s("path_namespace")) } else { None };
    let mut path = Some(match &rpath {
        Some(p) if has(r, "path_namespace") && g.chance(1, 2) => format!("{}/{}", if p == "/" { "" } else { p.as_str() }, g.pick_str(&SEGS)),
        Some(p) => p.clone(),
        None => rand_path(g),
    });
    let mut dest = if has(r, "destination") { Some(s("destination")) } else if g.chance(1, 4) { Some(g.pick_str(&UNIQ).to_string()) } else { None };
    // body satisfying the argument keys
    let mut body: Vec<J> = vec![];
    let want = |i: u64| -> Option<(bool, String)> {
        for a in r["args"].as_array().unwrap() {
            if a["i"] == i {
                return Some((false, str_of(&a["v"])));
            }
        }
        for a in r["arg_paths"].as_array().unwrap() {
            if a["i"] == i {
                return Some((true, str_of(&a["v"])));
            }
        }
        None
    };
    for i in 0..3u64 {
        let a = match want(i) {
            Some((false, v)) => json!({"k": "s", "s": b(&v)}),
            Some((true, v)) => {
                // equal, or (as a STRING) a '/'-terminated prefix, or something below a '/'-terminated rule value
                match g.below(4) {
                    0 => json!({"k": "s", "s": b(&v)}),
                    1 if v != "/" => {
                        let cut = v.rfind('/').unwrap();
                        json!({"k": "s", "s": b(&v[..=cut])})
                    }
                    2 if v == "/" => json!({"k": "o", "s": b(&rand_path(g))}),
                    _ => json!({"k": "o", "s": b(&v)}),
                }
            }
            None if i == 0 && has(r, "arg0ns") => {
                let ns = s("arg0ns");
                let v = match g.below(3) {
                    0 if ns.contains('.') => ns.clone(),
                    1 => format!("{ns}.c.d"),
                    _ => format!("{ns}.c"),
                };
                json!({"k": "s", "s": b(&v)})
            }
            None => match g.below(4) {
                0 => json!({"k": "u", "s": []}),
                1 => json!({"k": "o", "s": b(&rand_path(g))}),
                _ => json!({"k": "s", "s": b(g.pick_str(&NAMES))}),
            },
        };
        body.push(a);
    }
    // perturbations
    for _ in 0..g.below(3) {
        match g.below(9) {
            0 => ty = g.pick_str(&TYPES).to_string(),
            1 => sender = if g.chance(1, 3) { None } else { Some(g.pick_str(&UNIQ).to_string()) },
            2 => iface = if g.chance(1, 3) { None } else { Some(g.pick_str(&IFACES).to_string()) },
            3 => member = if g.chance(1, 4) { None } else { Some(g.pick_str(&MEMBERS).to_string()) },
            4 => {
                path = if g.chance(1, 6) {
                    None
                } else {
                    let p = path.clone().unwrap_or_else(|| "/a".into());
                    Some(near_path(g, &p, false))
                }
            }
            5 => {
                dest = match g.below(3) {
                    0 => None,
                    1 => Some(g.pick_str(&UNIQ).to_string()),
                    _ => Some(g.pick_str(&WELL).to_string()),
                }
            }
            6 => {
                // shorten the body (possibly below an index the rule looks at)
                let k = g.below(body.len() as u64 + 1) as usize;
                body.truncate(k);
            }
            _ => {
                if !body.is_empty() {
                    let i = g.below(body.len() as u64) as usize;
                    let k = body[i]["k"].as_str().unwrap().to_string();
                    let v = str_of(&body[i]["s"]);
                    body[i] = match g.below(6) {
                        0 if k == "s" && is_obj_path(&v) => json!({"k": "o", "s": b(&v)}),
                        0 if k == "o" => json!({"k": "s", "s": b(&v)}),
                        1 if k == "s" || k == "o" => json!({"k": "v", "s": b(&v)}),
                        2 => json!({"k": "u", "s": []}),
                        3 if k == "s" && v.starts_with('/') => {
                            let base = if v.len() > 1 { v.trim_end_matches('/').to_string() } else { v.clone() };
                            let base = if base.is_empty() { "/".to_string() } else { base };
                            json!({"k": "s", "s": b(&near_path(g, &base, true))})
                        }
                        3 if k == "o" => {
                            let q = near_path(g, &v, false);
                            json!({"k": "o", "s": b(&q)})
                        }
                        4 if k == "s" => json!({"k": "s", "s": b(&format!("{v}{}", g.pick_str(&["c", ".c", "/", ""])))}),
                        5 if k == "s" && Signature::try_from(v.as_str()).is_ok() && !v.is_empty() => json!({"k": "g", "s": b(&v)}),
                        _ => json!({"k": "as", "s": b(&v)}),
                    };
                }
            }
        }
    }
    // keep the message well-formed for its type
    if path.is_none() || member.is_none() || (ty == "signal" && iface.is_none()) {
        if ty == "signal" || ty == "method_call" {
            if ty == "method_call" && path.is_some() && member.is_some() {
            } else if !has(r, "type") || g.chance(1, 2) {
                ty = "method_return".into();
            } else {
                path = path.or(Some("/a".into()));
                member = member.or(Some("M".into()));
                iface = iface.or(Some("a.I".into()));
            }
        }
    }
    let mut m = serde_json::Map::new();
    m.insert("type".into(), J::from(ty));
    for (k, v) in [("sender", sender), ("interface", iface), ("member", member), ("path", path), ("destination", dest)] {
        if let Some(v) = v {
            let v = if k == "path" && v.len() > 1 { v.trim_end_matches('/').to_string() } else { v };
            m.insert(k.into(), b(&v));
        }
    }
    m.insert("body".into(), J::Array(body));
    J::Object(m)
}

/// match-rand <n> <seed> <out.ndjson>
pub fn cmd_match_rand(args: &[String]) {
    let n: u64 = args[0].parse().unwrap();
    let mut g = Rng(args[1].parse::<u64>().unwrap() ^ 0xC21);
    let mut out = Out::create(&args[2]);
    let mut rule = rand_rule(&mut g);
    for i in 0..n {
        if i % 6 == 0 {
            rule = rand_rule(&mut g);
        }
        let msg = near_msg(&mut g, &rule);
        let single = g.chance(1, 2);
        let o = observe_match(&rule, &msg, single);
        let mut line = json!({"ev": "Match", "rule": rule, "msg": msg, "single": single});
        for (k, v) in o.as_object().unwrap() {
            line[k] = v.clone();
        }
        out.line_id(line);
    }
}

// ------------------------------------------------------------------ C22: string form
/// Display, reparse, reformat of one rule.
fn observe_str(rule: &J) -> J {
    let r = match build_rule(rule) {
        Ok(r) => r,
        Err(e) => return json!({"built": false, "err": e}),
    };
    let s = r.to_string();
    let mut o = json!({"built": true, "str": jbytes(s.as_bytes()), "text": s, "self": abstract_rule(&r)});
    match guarded(|| MatchRule::try_from(s.as_str()).map(|x| x.into_owned())) {
        Ok(Ok(r2)) => {
            o["reparse"] = json!({"ok": true, "rule": abstract_rule(&r2), "eq": r2 == r, "str2": jbytes(r2.to_string().as_bytes())});
        }
        Ok(Err(e)) => o["reparse"] = json!({"ok": false, "err": e.to_string()}),
        Err(p) => o["reparse"] = json!({"ok": false, "panic": p}),
    }
    // the same string through the owned type and serde (AddMatch sends the rule as a D-Bus string)
    o["owned_ok"] = J::from(zbus::OwnedMatchRule::try_from(s.as_str()).is_ok());
    o
}

/// parse -> format -> parse -> format of one rule string.
fn observe_parse(s: &str, style: u64) -> J {
    let mut line = json!({"ev": "ParseStr", "s": jbytes(s.as_bytes()), "text": s, "style": style});
    match guarded(|| MatchRule::try_from(s).map(|x| x.into_owned())) {
        Ok(Ok(r1)) => {
            let s2 = r1.to_string();
            line["accepted"] = J::from(true);
            line["r1"] = abstract_rule(&r1);
            line["s2"] = jbytes(s2.as_bytes());
            match guarded(|| MatchRule::try_from(s2.as_str()).map(|x| x.into_owned())) {
                Ok(Ok(r2)) => {
                    line["second"] = json!({"ok": true, "rule": abstract_rule(&r2), "eq": r2 == r1, "s3": jbytes(r2.to_string().as_bytes())});
                }
                Ok(Err(e)) => line["second"] = json!({"ok": false, "err": e.to_string()}),
                Err(p) => line["second"] = json!({"ok": false, "panic": p}),
            }
        }
        Ok(Err(e)) => {
            line["accepted"] = J::from(false);
            line["err"] = J::from(e.to_string());
        }
        Err(p) => {
            line["accepted"] = J::from(false);
            line["panic"] = J::from(p);
        }
    }
    line
}

/// rulestr-obs <cases.ndjson> <out.ndjson>
pub fn cmd_rulestr_obs(args: &[String]) {
    let mut out = Out::create(&args[1]);
    for c in read_cases(&args[0]) {
        if c.get("s").is_some() {
            // a stored rule string (replay of a ParseStr observation)
            let mut line = observe_parse(&str_of(&c["s"]), c.get("style").and_then(|x| x.as_u64()).unwrap_or(0));
            line["id"] = c["id"].clone();
            out.line(&line);
            continue;
        }
        let o = observe_str(&c["rule"]);
        let mut line = json!({"ev": "RuleStr", "id": c["id"], "rule": c["rule"]});
        for (k, v) in o.as_object().unwrap() {
            line[k] = v.clone();
        }
        out.line(&line);
    }
}

const TRICKY: [&str; 12] = ["", "a", "'", ",", "\\", "a'b,c", "='", "\\'", "''", "a b", "é", "x=y"];

fn rand_value_text(g: &mut Rng) -> String {
    if g.chance(1, 2) {
        return g.pick_str(&TRICKY).to_string();
    }
    let n = g.below(5);
    let mut s = String::new();
    for _ in 0..n {
        s.push(*g.pick(&['a', '\'', ',', '\\', '=', ' ', 'b', '/', '.']));
    }
    s
}

/// One way (of several the specification allows) to write a value: quoted pieces, \' outside
/// quotes, bare characters outside quotes.
fn write_value(g: &mut Rng, v: &str, style: u64) -> String {
    let mut out = String::new();
    match style {
        // canonical: one quoted section, apostrophes as '\''
        0 => {
            out.push('\'');
            for c in v.chars() {
                if c == '\'' {
                    out.push_str("'\\''");
                } else {
                    out.push(c);
                }
            }
            out.push('\'');
        }
        // no quotes at all where possible: \' for apostrophes, commas need quotes
        1 => {
            for c in v.chars() {
                match c {
                    '\'' => out.push_str("\\'"),
                    ',' => out.push_str("','"),
                    c => out.push(c),
                }
            }
        }
        // mixed: random split into quoted and bare pieces
        _ => {
            let mut quoted = false;
            for c in v.chars() {
                if g.chance(1, 3) {
                    out.push('\'');
                    quoted = !quoted;
                }
                match c {
                    '\'' => {
                        if quoted {
                            out.push('\'');
                            quoted = false;
                        }
                        out.push_str("\\'");
                    }
                    ',' => {
                        if !quoted {
                            out.push('\'');
                            quoted = true;
                        }
                        out.push(',');
                    }
                    '\\' if !quoted => {
                        // a bare backslash must not be followed by an apostrophe: quote it
                        out.push_str("'\\'");
                    }
                    c => out.push(c),
                }
            }
            if quoted {
                out.push('\'');
            }
        }
    }
    out
}

/// rulestr-rand <n> <seed> <out.ndjson>: (a) random rules built through the API (as rulestr-obs);
/// (b) random rule *strings* from the specification's grammar: parse -> format -> parse.
pub fn cmd_rulestr_rand(args: &[String]) {
    let n: u64 = args[0].parse().unwrap();
    let mut g = Rng(args[1].parse::<u64>().unwrap() ^ 0xC22);
    let mut out = Out::create(&args[2]);
    for i in 0..n {
        if i % 2 == 0 {
            // (a) rule with random values in the free-text positions (argN), all keys possible
            let mut r = rand_rule(&mut g);
            let mut args = vec![];
            let mut used = std::collections::BTreeSet::new();
            for a in r["arg_paths"].as_array().unwrap() {
                used.insert(a["i"].as_u64().unwrap());
            }
            for _ in 0..g.below(3) {
                let idx = *g.pick(&[0u64, 1, 2, 9, 10, 63]);
                if used.insert(idx) {
                    args.push((idx, rand_value_text(&mut g)));
                }
            }
            args.sort();
            if has(&r, "arg0ns") && used.contains(&0) {
                r.as_object_mut().unwrap().remove("arg0ns");
            }
            if g.chance(1, 3) {
                // builder calls in any order with repeats: the last call for an index wins
                let ns = has(&r, "arg0ns");
                let pool: Vec<u64> = [0u64, 1, 2, 9, 10, 63]
                    .iter()
                    .copied()
                    .filter(|i| (!used.contains(i) || args.iter().any(|(j, _)| j == i)) && !(ns && *i == 0))
                    .collect();
                let mut ops: Vec<(u64, String)> = vec![];
                for _ in 0..3 + g.below(4) {
                    ops.push((*g.pick(&pool), rand_value_text(&mut g)));
                }
                let mut last = std::collections::BTreeMap::new();
                for (i, v) in &ops {
                    last.insert(*i, v.clone());
                }
                args = last.into_iter().collect();
                let mut all: Vec<J> = ops.iter().map(|(i, v)| json!({"k": "arg", "i": i, "v": b(v)})).collect();
                for a in r["arg_paths"].as_array().unwrap() {
                    all.push(json!({"k": "argpath", "i": a["i"], "v": a["v"]}));
                }
                r["ops"] = J::Array(all);
            }
            r["args"] = J::Array(args.iter().map(|(i, v)| json!({"i": i, "v": b(v)})).collect());
            let o = observe_str(&r);
            let mut line = json!({"ev": "RuleStr", "rule": r});
            for (k, v) in o.as_object().unwrap() {
                line[k] = v.clone();
            }
            out.line_id(line);
        } else {
            // (b) a rule string in a random admissible spelling
            let style = g.below(3);
            let mut parts: Vec<String> = vec![];
            if g.chance(1, 3) {
                let v = g.pick_str(&TYPES);
                parts.push(format!("type={}", write_value(&mut g, v, style)));
            }
            if g.chance(1, 3) {
                let v = g.pick_str(&IFACES).to_string();
                parts.push(format!("interface={}", write_value(&mut g, &v, style)));
            }
            if g.chance(1, 3) {
                let v = rand_path(&mut g);
                let k = if g.chance(1, 2) { "path" } else { "path_namespace" };
                parts.push(format!("{k}={}", write_value(&mut g, &v, style)));
            }
            let mut used = std::collections::BTreeSet::new();
            for _ in 0..1 + g.below(3) {
                let idx = *g.pick(&[0u64, 1, 2, 10, 63]);
                if used.insert(idx) {
                    let v = rand_value_text(&mut g);
                    parts.push(format!("arg{idx}={}", write_value(&mut g, &v, style)));
                }
            }
            let s = parts.join(",");
            let line = observe_parse(&s, style);
            out.line_id(line);
        }
    }
}
