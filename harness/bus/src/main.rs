fn main(){}
