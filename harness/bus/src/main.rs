//! Conformance harness for the connection-level properties (C15, C18, C19, C20, C37, C38, C39).
//!
//! `bus run <scenarios.ndjson> <trace.ndjson>`: every scenario is a p2p connection over a ScriptSocket,
//! a set of user tasks (callers, senders, stream consumers) and a list of scheduler steps.  Everything
//! runs on one thread; zbus's own tasks run only when a step ticks the connection's executor.  The trace
//! holds one event per observable step, in the order the driver produced them.
mod peer;
mod script;
mod serial;

use futures_util::StreamExt;
use peer::*;
use script::*;
use serde_json::{json, Value as J};
use std::cell::RefCell;
use std::collections::HashMap;
use std::future::Future;
use std::io::{BufRead, Write};
use std::pin::Pin;
use std::rc::Rc;
use std::task::{Context, Poll, Waker};
use zbus::{Connection, MessageStream};

fn guid() -> zbus::Guid<'static> {
    zbus::Guid::try_from("0123456789abcdef0123456789abcdef").unwrap().to_owned()
}

/// Build an authenticated p2p connection over a scripted socket, without background threads.
fn connect(sh: &Sh, timeout_ms: u64, max_queued: Option<usize>) -> Connection {
    let mut b = zbus::connection::Builder::authenticated_socket(split(sh), guid())
        .unwrap()
        .p2p()
        .internal_executor(false);
    if timeout_ms > 0 {
        b = b.method_timeout(std::time::Duration::from_millis(timeout_ms));
    }
    if let Some(m) = max_queued {
        b = b.max_queued(m);
    }
    let fut = b.build();
    let mut fut = Box::pin(fut);
    for _ in 0..1000 {
        if let Poll::Ready(r) = poll_once(fut.as_mut()) {
            return r.expect("connection build");
        }
    }
    panic!("connection build did not complete");
}

/// Build a *bus* connection over the scripted socket; the fake bus answers the SASL lines and Hello.
fn connect_bus(sh: &Sh, peer: &mut Peer) -> Connection {
    let b = zbus::connection::Builder::socket(split(sh)).internal_executor(false);
    let mut fut = Box::pin(b.build());
    let mut hs_off = 0usize; // bytes of handshake text consumed
    let mut begun = false;
    for _ in 0..10000 {
        if let Poll::Ready(r) = poll_once(fut.as_mut()) {
            return r.expect("bus connection build");
        }
        // answer handshake lines
        loop {
            let line = {
                let s = sh.lock().unwrap();
                if begun {
                    break;
                }
                let rest = &s.written[hs_off..];
                match rest.windows(2).position(|w| w == b"\r\n") {
                    Some(p) => rest[..p + 2].to_vec(),
                    None => break,
                }
            };
            hs_off += line.len();
            let text = String::from_utf8_lossy(&line).trim_start_matches('\0').trim().to_string();
            if text.starts_with("AUTH") {
                release(sh, b"OK 0123456789abcdef0123456789abcdef\r\n".to_vec(), vec![]);
            } else if text.starts_with("NEGOTIATE_UNIX_FD") {
                release(sh, b"AGREE_UNIX_FD\r\n".to_vec(), vec![]);
            } else if text.starts_with("BEGIN") {
                begun = true;
                peer.parsed = hs_off;
            }
        }
        if begun {
            for i in peer.pump() {
                let m = peer.seen[i].msg.clone();
                if m.header().member().map(|x| x.as_str() == "Hello").unwrap_or(false) {
                    let s = peer.serial();
                    let r = zbus::message::Message::method_return(&m.header()).unwrap().serial(s)
                        .sender("org.freedesktop.DBus").unwrap().build(&":1.99").unwrap();
                    release(sh, msg_bytes(&r), vec![]);
                }
            }
        }
    }
    panic!("bus connection build did not complete");
}

/// Credits: a consumer takes one item per credit; `u64::MAX` = unlimited.
#[derive(Default)]
struct Gate {
    credits: u64,
    waker: Option<Waker>,
    clone_req: Option<usize>, // slot index to put a clone of the stream into
    async_drop_req: bool,     // release the stream through AsyncDrop::async_drop
}
type GateRc = Rc<RefCell<Gate>>;
struct WaitCredit(GateRc);
impl Future for WaitCredit {
    type Output = Option<usize>;
    fn poll(self: Pin<&mut Self>, cx: &mut Context<'_>) -> Poll<Option<usize>> {
        let mut g = self.0.borrow_mut();
        if g.async_drop_req {
            return Poll::Ready(Some(usize::MAX));
        }
        if let Some(slot) = g.clone_req.take() {
            return Poll::Ready(Some(slot));
        }
        if g.credits > 0 {
            if g.credits != u64::MAX {
                g.credits -= 1;
            }
            Poll::Ready(None)
        } else {
            g.waker = Some(cx.waker().clone());
            Poll::Pending
        }
    }
}
fn grant(g: &GateRc, n: u64) {
    let w = {
        let mut g = g.borrow_mut();
        g.credits = if n == u64::MAX { n } else { g.credits.saturating_add(n) };
        g.waker.take()
    };
    if let Some(w) = w {
        w.wake();
    }
}

fn err_kind(e: &zbus::Error) -> (&'static str, u32, i64) {
    match e {
        zbus::Error::MethodError(_, _, m) => (
            "method_error",
            m.header().reply_serial().map(|s| s.get()).unwrap_or(0),
            m.body().deserialize::<u32>().map(|x| x as i64).unwrap_or(-1),
        ),
        zbus::Error::InputOutput(_) => ("io", 0, -1),
        _ => ("other", 0, -1),
    }
}

type Slots = Rc<RefCell<HashMap<usize, MessageStream>>>;

/// A gate usable from `Send` futures (interface handlers).
#[derive(Default)]
struct SGate {
    credits: u64,
    wakers: Vec<Waker>,
}
type SGateArc = std::sync::Arc<std::sync::Mutex<SGate>>;
struct SWait(SGateArc);
impl Future for SWait {
    type Output = ();
    fn poll(self: Pin<&mut Self>, cx: &mut Context<'_>) -> Poll<()> {
        let mut g = self.0.lock().unwrap();
        if g.credits > 0 {
            g.credits -= 1;
            Poll::Ready(())
        } else {
            g.wakers.push(cx.waker().clone());
            Poll::Pending
        }
    }
}

/// An interface whose handler is suspended until the driver opens the gate (C39: in-flight handlers).
struct Slow {
    sh: Sh,
    gate: SGateArc,
}
#[zbus::interface(name = "org.verif.Slow")]
impl Slow {
    async fn work(&self, id: u32) -> u32 {
        emit(&self.sh, json!({"ev":"HandlerStart","k":id}));
        SWait(self.gate.clone()).await;
        emit(&self.sh, json!({"ev":"HandlerEnd","k":id}));
        id
    }
}

fn consumer(sh: Sh, conn: Connection, s: usize, rule: Option<String>, cap: Option<usize>, gate: GateRc, slots: Slots,
            from_slot: bool, parent: usize) -> Pin<Box<dyn Future<Output = J>>> {
    Box::pin(async move {
        let mut stream = if from_slot {
            let st = slots.borrow_mut().remove(&s).expect("clone slot");
            emit(&sh, json!({"ev":"Subscribed","stream":s,"result":"clone","parent":parent}));
            st
        } else {
            match rule {
                Some(r) => match MessageStream::for_match_rule(r.as_str(), &conn, cap).await {
                    Ok(st) => {
                        emit(&sh, json!({"ev":"Subscribed","stream":s,"result":"ok"}));
                        st
                    }
                    Err(e) => {
                        emit(&sh, json!({"ev":"Subscribed","stream":s,"result":"err","err":err_kind(&e).0}));
                        return json!("sub-failed");
                    }
                },
                None => {
                    let st = MessageStream::from(&conn);
                    emit(&sh, json!({"ev":"Subscribed","stream":s,"result":"ok"}));
                    st
                }
            }
        };
        drop(conn);
        loop {
            if let Some(slot) = WaitCredit(gate.clone()).await {
                if slot == usize::MAX {
                    emit(&sh, json!({"ev":"StreamDrop","stream":s,"how":"async_drop"}));
                    zbus::AsyncDrop::async_drop(stream).await;
                    emit(&sh, json!({"ev":"StreamAsyncDropped","stream":s}));
                    return json!("async-dropped");
                }
                slots.borrow_mut().insert(slot, stream.clone());
                emit(&sh, json!({"ev":"StreamCloned","stream":s,"into":slot}));
                continue;
            }
            match stream.next().await {
                Some(Ok(m)) => {
                    let d = describe(&m);
                    emit(&sh, json!({"ev":"Delivered","stream":s,"id":d["id"],"rseq":d["seq"],"type":d["type"]}));
                }
                Some(Err(e)) => {
                    emit(&sh, json!({"ev":"StreamErr","stream":s,"err":err_kind(&e).0}));
                }
                None => {
                    emit(&sh, json!({"ev":"StreamEnd","stream":s}));
                    return json!("ended");
                }
            }
        }
    })
}

fn caller(sh: Sh, conn: Connection, c: usize, noreply: bool) -> Pin<Box<dyn Future<Output = J>>> {
    Box::pin(async move {
        let r = async {
            let p: zbus::Proxy<'static> = zbus::proxy::Builder::new(&conn)
                .destination("org.verif.Peer")?
                .path("/org/verif/Obj")?
                .interface("org.verif.Iface")?
                .cache_properties(zbus::proxy::CacheProperties::No)
                .build()
                .await?;
            drop(conn);
            if noreply {
                p.call_noreply("Call", &(c as u32)).await.map(|_| None)
            } else {
                p.call_method("Call", &(c as u32)).await.map(Some)
            }
        }
        .await;
        match r {
            Ok(Some(m)) => {
                let d = describe(&m);
                emit(&sh, json!({"ev":"CallDone","c":c,"outcome":"ok","reply_serial":d["reply_serial"],"id":d["id"],"err":""}));
            }
            Ok(None) => emit(&sh, json!({"ev":"CallDone","c":c,"outcome":"noreply","reply_serial":0,"id":-1,"err":""})),
            Err(e) => {
                let (k, rs, id) = err_kind(&e);
                emit(&sh, json!({"ev":"CallDone","c":c,"outcome":"err","reply_serial":rs,"id":id,"err":k}));
            }
        }
        json!("done")
    })
}

fn sender(sh: Sh, conn: Connection, t: usize, n: usize, with_fd: bool) -> Pin<Box<dyn Future<Output = J>>> {
    Box::pin(async move {
        for k in 0..n {
            let id = (t * 100 + k) as u32;
            let b = zbus::message::Message::signal("/org/verif/S", "org.verif.S", "Sig").unwrap();
            let msg = if with_fd && k == 0 {
                let f = std::fs::File::open("/dev/null").unwrap();
                let fd = zbus::zvariant::Fd::from(std::os::fd::OwnedFd::from(f));
                // body: (u id, s padding-string, h fd)
                b.build(&(id, "x".repeat(10 + 7 * k + t), fd)).unwrap()
            } else {
                b.build(&(id, "y".repeat(3 + 11 * k + 5 * t))).unwrap()
            };
            emit(&sh, json!({"ev":"SendStart","task":t,"k":k,"id":id,"len":msg.data().len(),"nfds":msg.data().fds().len(),
                             "bytes": msg.data().bytes().to_vec()}));
            let r = conn.send(&msg).await;
            emit(&sh, json!({"ev":"SendDone","task":t,"k":k,"id":id,"ok":r.is_ok()}));
        }
        json!("done")
    })
}

struct Run {
    sh: Sh,
    conn: Option<Connection>,
    sched: Sched,
    peer: Peer,
    caller_task: HashMap<usize, usize>,
    stream_task: HashMap<usize, usize>,
    gates: HashMap<usize, GateRc>,
    slots: Slots,
    wire_of_caller: HashMap<usize, usize>, // caller id -> index in peer.seen
    next_id: u32,
    bus: bool,
    bus_auto: bool,
    bus_pending: std::collections::VecDeque<zbus::message::Message>, // replies of the fake bus not yet released
    proxies: HashMap<usize, usize>, // proxy id -> task
    exec: zbus::Executor<'static>,  // to keep ticking after the last Connection handle is gone
    clones: HashMap<usize, Connection>,
    sgate: SGateArc,
}

impl Run {
    /// Has the creation of this stream / proxy completed?  (Dropping a handle is only meaningful once it
    /// exists; cancelling a creation that is still in flight is a different operation.)
    fn created(&self, ev: &str, key: &str, id: usize) -> bool {
        self.sh.lock().unwrap().events.iter().any(|e| e["ev"] == ev && e[key].as_u64() == Some(id as u64) && e["result"] != "err")
    }
    fn pump(&mut self) {
        for i in self.peer.pump() {
            if self.bus {
                self.bus_handle(i);
            }
            let m = &self.peer.seen[i].msg;
            if m.message_type() == zbus::message::Type::MethodCall {
                if let Ok(c) = m.body().deserialize::<u32>() {
                    self.wire_of_caller.insert(c as usize, i);
                }
            }
        }
    }
    /// The fake bus driver: records AddMatch / RemoveMatch and answers driver calls.
    fn bus_handle(&mut self, i: usize) {
        let m = self.peer.seen[i].msg.clone();
        let h = m.header();
        if m.message_type() != zbus::message::Type::MethodCall
            || h.destination().map(|d| d.as_str() != "org.freedesktop.DBus").unwrap_or(true)
        {
            return;
        }
        let member = h.member().map(|x| x.to_string()).unwrap_or_default();
        let s = self.peer.serial();
        let rb = zbus::message::Message::method_return(&h).unwrap().serial(s).sender("org.freedesktop.DBus").unwrap();
        let reply = match member.as_str() {
            "AddMatch" | "RemoveMatch" => {
                let rule: String = m.body().deserialize().unwrap_or_default();
                emit(&self.sh, json!({"ev": if member == "AddMatch" {"BusAddMatch"} else {"BusRemoveMatch"}, "rule": rule}));
                rb.build(&()).unwrap()
            }
            "GetNameOwner" => rb.build(&":1.5").unwrap(),
            "RequestName" => rb.build(&1u32).unwrap(),
            "ReleaseName" => rb.build(&1u32).unwrap(),
            _ => rb.build(&()).unwrap(),
        };
        if self.bus_auto {
            release(&self.sh, msg_bytes(&reply), vec![]);
        } else {
            self.bus_pending.push_back(reply);
        }
    }
    fn tick(&mut self) -> bool {
        let t = self.exec.tick();
        let mut t = std::pin::pin!(t);
        poll_once(t.as_mut()).is_ready()
    }
    /// Number of things the driver still holds that keep the connection alive.
    fn handles(&self) -> usize {
        self.conn.iter().count() + self.clones.len() + self.sched.tasks.iter().filter(|t| t.fut.is_some() && !t.name.starts_with("shutdown")).count()
    }
    fn quiesce(&mut self) {
        for _ in 0..20000 {
            let mut progressed = false;
            while self.tick() {
                progressed = true;
                self.pump(); // frame what was written right away, so that Wire events keep their place in the order
            }
            for i in 0..self.sched.tasks.len() {
                if self.sched.woken(i) {
                    self.sched.poll(i);
                    progressed = true;
                    self.pump();
                }
            }
            self.pump();
            if !progressed {
                break;
            }
        }
        let pending: Vec<String> = self.sched.tasks.iter().filter(|t| t.fut.is_some()).map(|t| t.name.clone()).collect();
        let (rd, wr) = {
            let s = self.sh.lock().unwrap();
            (s.read_half_dropped, s.write_half_dropped)
        };
        emit(&self.sh, json!({"ev":"Quiescent","pending":pending,"pending_bus":self.bus_pending.len(),"handles":self.handles(),
                              "read_closed":rd,"write_closed":wr}));
    }
    fn send_in(&mut self, m: zbus::message::Message, kind: &str, cut: Option<usize>) {
        let d = describe(&m);
        emit(&self.sh, json!({"ev":"PeerSend","kind":kind,"reply_serial":d["reply_serial"],"id":d["id"],"serial":d["serial"],"member":d["member"]}));
        let b = msg_bytes(&m);
        match cut {
            Some(k) if k > 0 && k < b.len() => {
                release(&self.sh, b[..k].to_vec(), vec![]);
                release(&self.sh, b[k..].to_vec(), vec![]);
            }
            _ => release(&self.sh, b, vec![]),
        }
    }

    fn step(&mut self, st: &J) {
        let op = st[0].as_str().unwrap_or("");
        let a = |i: usize| st[i].as_u64().unwrap_or(0) as usize;
        match op {
            "tick" => {
                let r = self.tick();
                let _ = r;
            }
            "ticks" => {
                while self.tick() {}
            }
            "poll" => {
                // poll caller / sender task by task index in creation order
                let i = a(1);
                if i < self.sched.tasks.len() {
                    self.sched.poll(i);
                }
            }
            "pollc" => {
                if let Some(&t) = self.caller_task.get(&a(1)) {
                    self.sched.poll(t);
                }
            }
            "polls" => {
                if let Some(&t) = self.stream_task.get(&a(1)) {
                    self.sched.poll(t);
                }
            }
            "call" => {
                let c = a(1);
                let noreply = st[2].as_bool().unwrap_or(false);
                emit(&self.sh, json!({"ev":"CallStart","c":c,"noreply":noreply}));
                let conn = self.conn.as_ref().unwrap().clone();
                let t = self.sched.add(&format!("caller{c}"), caller(self.sh.clone(), conn, c, noreply));
                self.caller_task.insert(c, t);
            }
            "send" => {
                let t = a(1);
                let conn = self.conn.as_ref().unwrap().clone();
                self.sched.add(&format!("sender{t}"), sender(self.sh.clone(), conn, t, a(2), st[3].as_bool().unwrap_or(false)));
            }
            "sub" => {
                let s = a(1);
                // member "A": type='signal',member='A';  "~A": member='A' (no type key: matches signals too, so it
                // belongs on the bus);  "^A": type='method_call',member='A' (not a signal subscription)
                let raw = st[2].as_str().map(|x| x.to_string());
                let (rtype, member) = match raw.as_deref() {
                    Some(m) if m.starts_with('~') => ("", Some(m[1..].to_string())),
                    Some(m) if m.starts_with('^') => ("method_call", Some(m[1..].to_string())),
                    Some(m) => ("signal", Some(m.to_string())),
                    None => ("", None),
                };
                let rule = member.as_ref().map(|m| if rtype.is_empty() { format!("member='{m}'") } else { format!("type='{rtype}',member='{m}'") });
                let cap = st[3].as_u64().map(|x| x as usize);
                let canon = rule.as_ref().and_then(|r| zbus::MatchRule::try_from(r.as_str()).ok()).map(|r| r.to_string()).unwrap_or_default();
                emit(&self.sh, json!({"ev":"SubStart","stream":s,"member":member.clone().unwrap_or_default(),"cap":cap.unwrap_or(0),"rule":canon,"rtype":rtype}));
                let g: GateRc = Rc::new(RefCell::new(Gate::default()));
                self.gates.insert(s, g.clone());
                let conn = self.conn.as_ref().unwrap().clone();
                let t = self.sched.add(&format!("stream{s}"), consumer(self.sh.clone(), conn, s, rule, cap, g, self.slots.clone(), false, 0));
                self.stream_task.insert(s, t);
            }
            "clone" => {
                // ["clone", s, s2]: ask consumer s to clone its stream into slot s2, then start consumer s2
                let (s, s2) = (a(1), a(2));
                if let Some(g) = self.gates.get(&s) {
                    let w = {
                        let mut g = g.borrow_mut();
                        g.clone_req = Some(s2);
                        g.waker.take()
                    };
                    if let Some(w) = w {
                        w.wake();
                    }
                    if let Some(&t) = self.stream_task.get(&s) {
                        self.sched.poll(t);
                    }
                    if self.slots.borrow().contains_key(&s2) {
                        let g2: GateRc = Rc::new(RefCell::new(Gate::default()));
                        self.gates.insert(s2, g2.clone());
                        let conn = self.conn.as_ref().unwrap().clone();
                        let t = self.sched.add(&format!("stream{s2}"), consumer(self.sh.clone(), conn, s2, None, None, g2, self.slots.clone(), true, s));
                        self.stream_task.insert(s2, t);
                        self.sched.poll(t);
                    }
                }
            }
            "asyncdrop" => {
                let s = a(1);
                if let (Some(g), Some(&t)) = (self.gates.get(&s), self.stream_task.get(&s)) {
                    if !self.sched.done(t) && self.created("Subscribed", "stream", s) {
                        let w = {
                            let mut g = g.borrow_mut();
                            g.async_drop_req = true;
                            g.waker.take()
                        };
                        if let Some(w) = w {
                            w.wake();
                        }
                        self.sched.poll(t);
                    }
                }
            }
            "credit" => {
                if let Some(g) = self.gates.get(&a(1)) {
                    grant(g, st[2].as_u64().unwrap_or(1));
                }
            }
            "dropstream" => {
                let s = a(1);
                if let Some(&t) = self.stream_task.get(&s) {
                    if !self.sched.done(t) && self.created("Subscribed", "stream", s) {
                        self.sched.cancel(t);
                        emit(&self.sh, json!({"ev":"StreamDrop","stream":s}));
                    } else {
                        emit(&self.sh, json!({"ev":"StepSkipped","step":st}));
                    }
                }
            }
            "cancelcall" => {
                if let Some(&t) = self.caller_task.get(&a(1)) {
                    if !self.sched.done(t) {
                        self.sched.cancel(t);
                        emit(&self.sh, json!({"ev":"CallCancelled","c":a(1)}));
                    }
                }
            }
            "reply" | "error" => {
                self.pump();
                let c = a(1);
                if let Some(&i) = self.wire_of_caller.get(&c) {
                    self.next_id += 1;
                    let id = 1000 + c as u32;
                    let m = if op == "reply" { self.peer.reply_to(i, id) } else { self.peer.error_to(i, id) };
                    let cut = st[2].as_u64().map(|x| x as usize);
                    self.send_in(m, if op == "reply" { "return" } else { "error" }, cut);
                } else {
                    emit(&self.sh, json!({"ev":"StepSkipped","step":st}));
                }
            }
            "stray" => {
                let rs = 0x7000_0000u32 + a(1) as u32;
                let m = self.peer.stray(rs, 9000 + a(1) as u32, st[2].as_bool().unwrap_or(false));
                self.send_in(m, "stray", None);
            }
            "signal" => {
                // ["signal", member, id]
                let member = st[1].as_str().unwrap_or("Sig");
                let id = a(2) as u32;
                let m = self.peer.signal("/org/verif/Obj", "org.verif.Iface", member, Some(":1.7"), id);
                self.send_in(m, "signal", st[3].as_u64().map(|x| x as usize));
            }
            "busreply" => {
                if let Some(r) = self.bus_pending.pop_front() {
                    release(&self.sh, msg_bytes(&r), vec![]);
                }
            }
            "busauto" => {
                self.bus_auto = st[1].as_bool().unwrap_or(true);
                if self.bus_auto {
                    while let Some(r) = self.bus_pending.pop_front() {
                        release(&self.sh, msg_bytes(&r), vec![]);
                    }
                }
            }
            "proxysig" => {
                // ["proxysig", p, dest, member]: a Proxy plus one of its signal streams, as one droppable handle
                let p = a(1);
                let dest = st[2].as_str().unwrap_or(":1.5").to_string();
                let member = st[3].as_str().unwrap_or("A").to_string();
                emit(&self.sh, json!({"ev":"ProxyStart","proxy":p,"dest":dest.clone(),"member":member.clone()}));
                let conn = self.conn.as_ref().unwrap().clone();
                let sh = self.sh.clone();
                let fut: Pin<Box<dyn Future<Output = J>>> = Box::pin(async move {
                    let r = async {
                        let px: zbus::Proxy<'static> = zbus::proxy::Builder::new(&conn)
                            .destination(dest)?.path("/org/verif/Obj")?.interface("org.verif.Iface")?
                            .cache_properties(zbus::proxy::CacheProperties::No).build().await?;
                        drop(conn);
                        let st = px.receive_signal(member).await?;
                        Ok::<_, zbus::Error>((px, st))
                    }.await;
                    match r {
                        Ok((_px, mut st)) => {
                            emit(&sh, json!({"ev":"ProxySubscribed","proxy":p,"result":"ok"}));
                            while let Some(m) = st.next().await {
                                emit(&sh, json!({"ev":"ProxyDelivered","proxy":p,"id":first_u32(&m)}));
                            }
                            emit(&sh, json!({"ev":"ProxyStreamEnd","proxy":p}));
                        }
                        Err(e) => emit(&sh, json!({"ev":"ProxySubscribed","proxy":p,"result":"err","err":err_kind(&e).0})),
                    }
                    json!("done")
                });
                let t = self.sched.add(&format!("proxy{p}"), fut);
                self.proxies.insert(p, t);
            }
            "proxysig2" => {
                // ["proxysig2", p, dest, m1, m2]: one Proxy whose first two signal streams are requested at the same
                // time (futures joined), held as one droppable handle
                let p = a(1);
                let dest = st[2].as_str().unwrap_or("org.verif.Peer").to_string();
                let m1 = st[3].as_str().unwrap_or("A").to_string();
                let m2 = st[4].as_str().unwrap_or("B").to_string();
                emit(&self.sh, json!({"ev":"ProxyStart","proxy":p,"dest":dest.clone(),"member":format!("{m1}+{m2}")}));
                let conn = self.conn.as_ref().unwrap().clone();
                let sh = self.sh.clone();
                let fut: Pin<Box<dyn Future<Output = J>>> = Box::pin(async move {
                    let r = async {
                        let px: zbus::Proxy<'static> = zbus::proxy::Builder::new(&conn)
                            .destination(dest)?.path("/org/verif/Obj")?.interface("org.verif.Iface")?
                            .cache_properties(zbus::proxy::CacheProperties::No).build().await?;
                        drop(conn);
                        let (s1, s2) = futures_util::future::join(px.receive_signal(m1), px.receive_signal(m2)).await;
                        let (s1, s2) = (s1?, s2?);
                        Ok::<_, zbus::Error>((px, s1, s2))
                    }.await;
                    match r {
                        Ok((_px, s1, s2)) => {
                            emit(&sh, json!({"ev":"ProxySubscribed","proxy":p,"result":"ok"}));
                            let mut both = futures_util::stream::select(s1, s2);
                            while let Some(m) = both.next().await {
                                emit(&sh, json!({"ev":"ProxyDelivered","proxy":p,"id":first_u32(&m)}));
                            }
                            emit(&sh, json!({"ev":"ProxyStreamEnd","proxy":p}));
                        }
                        Err(e) => emit(&sh, json!({"ev":"ProxySubscribed","proxy":p,"result":"err","err":err_kind(&e).0})),
                    }
                    json!("done")
                });
                let t = self.sched.add(&format!("proxy{p}"), fut);
                self.proxies.insert(p, t);
            }
            "reqname" => {
                // ["reqname", flags]: request a well-known name on the (fake) bus; flags bit 0 = AllowReplacement,
                // 1 = ReplaceExisting, 2 = DoNotQueue
                if let Some(c) = self.conn.clone() {
                    let bits = a(1);
                    let sh = self.sh.clone();
                    let fut: Pin<Box<dyn Future<Output = J>>> = Box::pin(async move {
                        let mut f: enumflags2::BitFlags<zbus::fdo::RequestNameFlags> = enumflags2::BitFlags::empty();
                        if bits & 1 != 0 { f |= zbus::fdo::RequestNameFlags::AllowReplacement; }
                        if bits & 2 != 0 { f |= zbus::fdo::RequestNameFlags::ReplaceExisting; }
                        if bits & 4 != 0 { f |= zbus::fdo::RequestNameFlags::DoNotQueue; }
                        let r = c.request_name_with_flags("org.verif.Owned", f).await;
                        drop(c);
                        emit(&sh, json!({"ev":"NameRequested","flags":bits,"ok":r.is_ok()}));
                        json!("done")
                    });
                    let t = self.sched.add("reqname", fut);
                    self.sched.poll(t);
                }
            }
            "pollp" => {
                if let Some(&t) = self.proxies.get(&a(1)) {
                    self.sched.poll(t);
                }
            }
            "dropproxy" => {
                if let Some(&t) = self.proxies.get(&a(1)) {
                    if !self.sched.done(t) && self.created("ProxySubscribed", "proxy", a(1)) {
                        self.sched.cancel(t);
                        emit(&self.sh, json!({"ev":"ProxyDrop","proxy":a(1)}));
                    } else {
                        emit(&self.sh, json!({"ev":"StepSkipped","step":st}));
                    }
                }
            }
            "cloneconn" => {
                if let Some(c) = &self.conn {
                    self.clones.insert(a(1), c.clone());
                    emit(&self.sh, json!({"ev":"HandleCreate","which":"clone","h":a(1)}));
                } else if let Some(c) = self.clones.values().next().cloned() {
                    self.clones.insert(a(1), c);
                    emit(&self.sh, json!({"ev":"HandleCreate","which":"clone","h":a(1)}));
                }
            }
            "dropclone" => {
                if self.clones.remove(&a(1)).is_some() {
                    emit(&self.sh, json!({"ev":"HandleDrop","which":"clone","h":a(1)}));
                }
            }
            "serve" => {
                if let Some(c) = self.conn.clone() {
                    let iface = Slow { sh: self.sh.clone(), gate: self.sgate.clone() };
                    let fut = c.object_server().at("/org/verif/Obj", iface);
                    let mut fut = Box::pin(fut);
                    let mut ok = false;
                    for _ in 0..1000 {
                        if let Poll::Ready(r) = poll_once(fut.as_mut()) {
                            ok = r.unwrap_or(false);
                            break;
                        }
                        self.tick();
                    }
                    emit(&self.sh, json!({"ev":"Served","ok":ok}));
                }
            }
            "incall" => {
                // the peer calls org.verif.Slow.Work(id)
                let id = a(1) as u32;
                let s = self.peer.serial();
                let m = zbus::message::Message::method_call("/org/verif/Obj", "Work").unwrap()
                    .interface("org.verif.Slow").unwrap().serial(s).build(&id).unwrap();
                emit(&self.sh, json!({"ev":"PeerCall","k":id,"serial":s.get()}));
                release(&self.sh, msg_bytes(&m), vec![]);
            }
            "open" => {
                let ws = {
                    let mut g = self.sgate.lock().unwrap();
                    g.credits += st[1].as_u64().unwrap_or(1);
                    std::mem::take(&mut g.wakers)
                };
                for w in ws {
                    w.wake();
                }
            }
            "shutdown" => {
                if let Some(c) = self.conn.take() {
                    emit(&self.sh, json!({"ev":"ShutdownStart"}));
                    let sh = self.sh.clone();
                    let fut: Pin<Box<dyn Future<Output = J>>> = Box::pin(async move {
                        c.graceful_shutdown().await;
                        emit(&sh, json!({"ev":"ShutdownDone"}));
                        json!("done")
                    });
                    let t = self.sched.add("shutdown", fut);
                    self.sched.poll(t);
                }
            }
            "shutdownclone" => {
                // graceful_shutdown() through another handle of the same connection (Connection is Clone)
                if let Some(c) = self.clones.remove(&a(1)) {
                    emit(&self.sh, json!({"ev":"ShutdownStart","which":a(1)}));
                    let sh = self.sh.clone();
                    let k = a(1);
                    let fut: Pin<Box<dyn Future<Output = J>>> = Box::pin(async move {
                        c.graceful_shutdown().await;
                        emit(&sh, json!({"ev":"ShutdownDone","which":k}));
                        json!("done")
                    });
                    let t = self.sched.add(&format!("shutdown{k}"), fut);
                    self.sched.poll(t);
                }
            }
            "permit" => allow_write(&self.sh, a(1).max(1)),
            "gate" => {
                let w = {
                    let mut s = self.sh.lock().unwrap();
                    s.write_gated = st[1].as_bool().unwrap_or(true);
                    s.write_waker.take()
                };
                if let Some(w) = w {
                    w.wake();
                }
            }
            "eof" => {
                emit(&self.sh, json!({"ev":"Fault","where":"read","kind":"eof"}));
                set_read_fault(&self.sh, Fault::Eof);
            }
            "readerr" => {
                emit(&self.sh, json!({"ev":"Fault","where":"read","kind":"err"}));
                set_read_fault(&self.sh, Fault::Err);
            }
            "partial" => {
                // release only the first k bytes of a signal, then fault: ["partial", member, id, k, "eof"|"err"]
                let m = self.peer.signal("/org/verif/Obj", "org.verif.Iface", st[1].as_str().unwrap_or("Sig"), Some(":1.7"), a(2) as u32);
                let b = msg_bytes(&m);
                let k = a(3).min(b.len().saturating_sub(1));
                emit(&self.sh, json!({"ev":"PeerSendPartial","id":a(2),"k":k,"len":b.len()}));
                if k > 0 {
                    release(&self.sh, b[..k].to_vec(), vec![]);
                }
                let kind = st[4].as_str().unwrap_or("eof");
                emit(&self.sh, json!({"ev":"Fault","where":"read","kind":kind}));
                set_read_fault(&self.sh, if kind == "eof" { Fault::Eof } else { Fault::Err });
            }
            "writeerr" => {
                emit(&self.sh, json!({"ev":"Fault","where":"write","kind":"err"}));
                set_write_fault(&self.sh, Fault::Err);
            }
            "sleep" => {
                std::thread::sleep(std::time::Duration::from_millis(a(1) as u64));
                emit(&self.sh, json!({"ev":"Slept","ms":a(1)}));
                // A timer that has expired wakes its task from async-io's reactor thread, which may be late on a
                // busy machine; polling the callers once more is always legal and lets them see the deadline
                // themselves (Timer::poll compares with the clock), so "timeout applied" does not depend on load.
                for i in 0..self.sched.tasks.len() {
                    if self.sched.tasks[i].name.starts_with("caller") {
                        self.sched.poll(i);
                    }
                }
            }
            "quiesce" => self.quiesce(),
            "dropconn" => {
                if self.conn.take().is_some() {
                    emit(&self.sh, json!({"ev":"HandleDrop","which":"conn"}));
                }
            }
            "allcredit" => {
                emit(&self.sh, json!({"ev":"AllCredit"}));
                for g in self.gates.values() {
                    grant(g, u64::MAX);
                }
            }
            _ => emit(&self.sh, json!({"ev":"StepUnknown","step":st})),
        }
        self.pump();
    }
}

fn run_scenario(sc: &J) -> Vec<J> {
    let sh = new_shared();
    sh.lock().unwrap().log_io = sc["log_io"].as_bool().unwrap_or(false);
    sh.lock().unwrap().write_gated = sc["write_gated"].as_bool().unwrap_or(false);
    sh.lock().unwrap().yield_after_write = sc["yield_after_write"].as_bool().unwrap_or(false);
    emit(&sh, json!({"ev":"Reset","kind":sc["kind"],"timeout_ms":sc["timeout_ms"].as_u64().unwrap_or(0)}));
    let bus = sc["bus"].as_bool().unwrap_or(false);
    let mut peer = Peer::new(&sh);
    let conn = if bus {
        connect_bus(&sh, &mut peer)
    } else {
        connect(&sh, sc["timeout_ms"].as_u64().unwrap_or(0), sc["max_queued"].as_u64().map(|x| x as usize))
    };
    let exec = conn.executor().clone();
    let mut run = Run {
        sh: sh.clone(),
        exec,
        clones: HashMap::new(),
        sgate: Default::default(),
        conn: Some(conn),
        sched: Sched::new(),
        peer,
        caller_task: HashMap::new(),
        stream_task: HashMap::new(),
        gates: HashMap::new(),
        slots: Rc::new(RefCell::new(HashMap::new())),
        wire_of_caller: HashMap::new(),
        next_id: 0,
        bus,
        bus_auto: sc["bus_auto"].as_bool().unwrap_or(true),
        bus_pending: Default::default(),
        proxies: HashMap::new(),
    };
    let res = std::panic::catch_unwind(std::panic::AssertUnwindSafe(|| {
        for st in sc["steps"].as_array().unwrap() {
            run.step(st);
        }
    }));
    if let Err(e) = res {
        let msg = e.downcast_ref::<String>().cloned().or_else(|| e.downcast_ref::<&str>().map(|s| s.to_string())).unwrap_or_default();
        emit(&sh, json!({"ev":"Panic","msg":msg}));
    }
    // tear down: drop tasks, then the connection, tick nothing further
    run.sched.tasks.clear();
    drop(run);
    let ev = std::mem::take(&mut sh.lock().unwrap().events);
    ev
}

fn main() {
    let args: Vec<String> = std::env::args().collect();
    match args[1].as_str() {
        "run" => {
            std::panic::set_hook(Box::new(|_| {}));
            let inp = std::io::BufReader::new(std::fs::File::open(&args[2]).expect("scenarios"));
            let mut w = std::io::BufWriter::new(std::fs::File::create(&args[3]).expect("trace"));
            for line in inp.lines() {
                let line = line.unwrap();
                if line.trim().is_empty() {
                    continue;
                }
                let sc: J = serde_json::from_str(&line).expect("scenario json");
                for (i, mut e) in run_scenario(&sc).into_iter().enumerate() {
                    e["scn"] = sc["id"].clone();
                    e["n"] = json!(i);
                    writeln!(w, "{}", serde_json::to_string(&e).unwrap()).unwrap();
                }
            }
        }
        "serial" => serial::cmd(&args[2..]),
        "serial-rounds" => serial::cmd_rounds(&args[2..]),
        other => {
            eprintln!("unknown command {other}");
            std::process::exit(2);
        }
    }
}
