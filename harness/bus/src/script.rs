//! Scripted transport + deterministic single-threaded scheduler for zbus connections.
//!
//! `ScriptSocket` implements zbus's public `ReadHalf` / `WriteHalf` traits.  Reads hand out exactly the
//! chunks the driver has released (Pending otherwise, EOF / io::Error when scripted); writes are gated:
//! a `sendmsg` call completes only when the driver has granted a write permit, and accepts at most the
//! number of bytes of that permit (partial writes).  Every call is logged as an event, in the order the
//! single driver thread produced it.
#![allow(dead_code)]
use serde_json::{json, Value as J};
use std::collections::VecDeque;
use std::future::Future;
use std::io;
use std::os::fd::{BorrowedFd, OwnedFd};
use std::pin::Pin;
use std::sync::atomic::{AtomicBool, Ordering};
use std::sync::{Arc, Mutex};
use std::task::{Context, Poll, Wake, Waker};

#[derive(Debug)]
pub struct Chunk {
    pub bytes: Vec<u8>,
    pub fds: Vec<OwnedFd>,
}

#[derive(Debug, Clone, Copy, PartialEq)]
pub enum Fault {
    None,
    Eof,
    Err,
}

#[derive(Debug)]
pub struct Shared {
    pub inbound: VecDeque<Chunk>,
    pub read_waker: Option<Waker>,
    pub read_fault: Fault, // applies once `inbound` is drained
    pub write_gated: bool,
    pub write_permits: VecDeque<usize>, // each: max bytes accepted by one sendmsg call
    pub write_waker: Option<Waker>,
    pub write_fault: Fault, // applies to the next sendmsg call
    pub written: Vec<u8>,
    pub written_fds: Vec<(usize, usize)>, // (offset in `written` at which fds were attached, count)
    pub events: Vec<J>,
    pub read_half_dropped: bool,
    pub write_half_dropped: bool,
    pub closed: bool,
    pub recv_calls: u64,
    pub eof_returns: u64, // how often the scripted EOF (Ok(0)) has been handed out
    pub send_calls: u64,
    pub log_io: bool,
    /// After a sendmsg has written its bytes, return Pending once before reporting completion (a
    /// transport may always yield there; on a multi-threaded runtime this is the window in which the
    /// reader task runs between the write and the sender's next instruction).
    pub yield_after_write: bool,
}

pub type Sh = Arc<Mutex<Shared>>;

pub fn new_shared() -> Sh {
    Arc::new(Mutex::new(Shared {
        inbound: VecDeque::new(),
        read_waker: None,
        read_fault: Fault::None,
        write_gated: false,
        write_permits: VecDeque::new(),
        write_waker: None,
        write_fault: Fault::None,
        written: vec![],
        written_fds: vec![],
        events: vec![],
        read_half_dropped: false,
        write_half_dropped: false,
        closed: false,
        recv_calls: 0,
        eof_returns: 0,
        send_calls: 0,
        log_io: true,
        yield_after_write: false,
    }))
}

pub fn emit(sh: &Sh, ev: J) {
    sh.lock().unwrap().events.push(ev);
}

/// Make bytes (+fds) readable.
pub fn release(sh: &Sh, bytes: Vec<u8>, fds: Vec<OwnedFd>) {
    let w = {
        let mut s = sh.lock().unwrap();
        s.inbound.push_back(Chunk { bytes, fds });
        s.read_waker.take()
    };
    if let Some(w) = w {
        w.wake();
    }
}

pub fn set_read_fault(sh: &Sh, f: Fault) {
    let w = {
        let mut s = sh.lock().unwrap();
        s.read_fault = f;
        s.read_waker.take()
    };
    if let Some(w) = w {
        w.wake();
    }
}

pub fn allow_write(sh: &Sh, n: usize) {
    let w = {
        let mut s = sh.lock().unwrap();
        s.write_permits.push_back(n);
        s.write_waker.take()
    };
    if let Some(w) = w {
        w.wake();
    }
}

pub fn set_write_fault(sh: &Sh, f: Fault) {
    let w = {
        let mut s = sh.lock().unwrap();
        s.write_fault = f;
        s.write_waker.take()
    };
    if let Some(w) = w {
        w.wake();
    }
}

#[derive(Debug)]
pub struct ScriptRead(pub Sh);
#[derive(Debug)]
pub struct ScriptWrite(pub Sh);

impl Drop for ScriptRead {
    fn drop(&mut self) {
        let mut s = self.0.lock().unwrap();
        s.read_half_dropped = true;
        s.events.push(json!({"ev":"ReadHalfDropped"}));
    }
}
impl Drop for ScriptWrite {
    fn drop(&mut self) {
        let mut s = self.0.lock().unwrap();
        s.write_half_dropped = true;
        s.events.push(json!({"ev":"WriteHalfDropped"}));
    }
}

struct RecvFut<'a> {
    sh: &'a Sh,
    buf: &'a mut [u8],
}
impl Future for RecvFut<'_> {
    type Output = io::Result<(usize, Vec<OwnedFd>)>;
    fn poll(self: Pin<&mut Self>, cx: &mut Context<'_>) -> Poll<Self::Output> {
        let this = self.get_mut();
        let mut s = this.sh.lock().unwrap();
        s.recv_calls += 1;
        if let Some(front) = s.inbound.front_mut() {
            let n = front.bytes.len().min(this.buf.len());
            this.buf[..n].copy_from_slice(&front.bytes[..n]);
            front.bytes.drain(..n);
            let fds = std::mem::take(&mut front.fds);
            if front.bytes.is_empty() {
                s.inbound.pop_front();
            }
            if s.log_io {
                let nf = fds.len();
                let bl = this.buf.len();
                s.events.push(json!({"ev":"Recvmsg","buflen":bl,"n":n,"nfds":nf}));
            }
            return Poll::Ready(Ok((n, fds)));
        }
        match s.read_fault {
            Fault::Eof => {
                s.eof_returns += 1;
                if s.eof_returns > 64 {
                    // The reader keeps calling recvmsg although it has been told 64 times that the stream is
                    // at its end: it ignores EOF.  Report it once and park the call, so that the run ends.
                    if s.eof_returns == 65 {
                        s.events.push(json!({"ev":"ReaderSpin","eof_returns":64}));
                    }
                    return Poll::Pending;
                }
                s.events.push(json!({"ev":"Recvmsg","buflen":this.buf.len(),"n":0,"nfds":0,"fault":"eof"}));
                Poll::Ready(Ok((0, vec![])))
            }
            Fault::Err => {
                s.events.push(json!({"ev":"Recvmsg","buflen":this.buf.len(),"n":0,"nfds":0,"fault":"err"}));
                Poll::Ready(Err(io::Error::new(io::ErrorKind::ConnectionReset, "scripted read error")))
            }
            Fault::None => {
                s.read_waker = Some(cx.waker().clone());
                Poll::Pending
            }
        }
    }
}

#[async_trait::async_trait]
impl zbus::connection::socket::ReadHalf for ScriptRead {
    async fn recvmsg(&mut self, buf: &mut [u8]) -> io::Result<(usize, Vec<OwnedFd>)> {
        RecvFut { sh: &self.0, buf }.await
    }
    fn can_pass_unix_fd(&self) -> bool {
        true
    }
    async fn peer_credentials(&mut self) -> io::Result<zbus::fdo::ConnectionCredentials> {
        Ok(Default::default())
    }
}

struct SendFut<'a> {
    sh: &'a Sh,
    buf: &'a [u8],
    nfds: usize,
    done: Option<usize>,
}
impl Future for SendFut<'_> {
    type Output = io::Result<usize>;
    fn poll(self: Pin<&mut Self>, cx: &mut Context<'_>) -> Poll<Self::Output> {
        let this = self.get_mut();
        if let Some(n) = this.done {
            return Poll::Ready(Ok(n));
        }
        let mut s = this.sh.lock().unwrap();
        match s.write_fault {
            Fault::Err | Fault::Eof => {
                s.send_calls += 1;
                s.events.push(json!({"ev":"Sendmsg","len":this.buf.len(),"accepted":0,"nfds":this.nfds,"fault":"err"}));
                return Poll::Ready(Err(io::Error::new(io::ErrorKind::BrokenPipe, "scripted write error")));
            }
            Fault::None => {}
        }
        let cap = if s.write_gated {
            match s.write_permits.pop_front() {
                Some(n) => n,
                None => {
                    s.write_waker = Some(cx.waker().clone());
                    return Poll::Pending;
                }
            }
        } else {
            s.write_permits.pop_front().unwrap_or(usize::MAX)
        };
        s.send_calls += 1;
        let n = this.buf.len().min(cap.max(1));
        let off = s.written.len();
        s.written.extend_from_slice(&this.buf[..n]);
        if this.nfds > 0 {
            s.written_fds.push((off, this.nfds));
        }
        if s.log_io {
            let l = this.buf.len();
            let nf = this.nfds;
            s.events.push(json!({"ev":"Sendmsg","len":l,"accepted":n,"nfds":nf,"off":off}));
        }
        if s.yield_after_write {
            this.done = Some(n);
            cx.waker().wake_by_ref();
            return Poll::Pending;
        }
        Poll::Ready(Ok(n))
    }
}

#[async_trait::async_trait]
impl zbus::connection::socket::WriteHalf for ScriptWrite {
    async fn sendmsg(&mut self, buf: &[u8], fds: &[BorrowedFd<'_>]) -> io::Result<usize> {
        SendFut { sh: &self.0, buf, nfds: fds.len(), done: None }.await
    }
    async fn close(&mut self) -> io::Result<()> {
        let mut s = self.0.lock().unwrap();
        s.closed = true;
        s.events.push(json!({"ev":"SocketClose"}));
        Ok(())
    }
    fn can_pass_unix_fd(&self) -> bool {
        true
    }
    async fn peer_credentials(&mut self) -> io::Result<zbus::fdo::ConnectionCredentials> {
        Ok(Default::default())
    }
}

pub fn split(sh: &Sh) -> zbus::connection::socket::BoxedSplit {
    zbus::connection::socket::Split::new(
        Box::new(ScriptRead(sh.clone())) as Box<dyn zbus::connection::socket::ReadHalf>,
        Box::new(ScriptWrite(sh.clone())) as Box<dyn zbus::connection::socket::WriteHalf>,
    )
}

// ------------------------------------------------------------------------------------------ scheduler

pub struct Flag(pub AtomicBool);
impl Wake for Flag {
    fn wake(self: Arc<Self>) {
        self.0.store(true, Ordering::SeqCst);
    }
}

pub struct Task {
    pub name: String,
    pub fut: Option<Pin<Box<dyn Future<Output = J>>>>,
    pub flag: Arc<Flag>,
    pub result: Option<J>,
    pub polls: u64,
}

pub struct Sched {
    pub tasks: Vec<Task>,
}

pub fn poll_once<F: Future + ?Sized>(f: Pin<&mut F>) -> Poll<F::Output> {
    let flag = Arc::new(Flag(AtomicBool::new(false)));
    let w = Waker::from(flag);
    let mut cx = Context::from_waker(&w);
    f.poll(&mut cx)
}

impl Sched {
    pub fn new() -> Self {
        Sched { tasks: vec![] }
    }
    pub fn add(&mut self, name: &str, fut: Pin<Box<dyn Future<Output = J>>>) -> usize {
        self.tasks.push(Task {
            name: name.to_string(),
            fut: Some(fut),
            flag: Arc::new(Flag(AtomicBool::new(true))),
            result: None,
            polls: 0,
        });
        self.tasks.len() - 1
    }
    /// Poll task i once (if it is still running). Returns true if it completed in this poll.
    pub fn poll(&mut self, i: usize) -> bool {
        let t = &mut self.tasks[i];
        if let Some(f) = t.fut.as_mut() {
            t.flag.0.store(false, Ordering::SeqCst);
            let w = Waker::from(t.flag.clone());
            let mut cx = Context::from_waker(&w);
            t.polls += 1;
            if let Poll::Ready(r) = f.as_mut().poll(&mut cx) {
                t.result = Some(r);
                t.fut = None;
                return true;
            }
        }
        false
    }
    pub fn done(&self, i: usize) -> bool {
        self.tasks[i].fut.is_none()
    }
    pub fn woken(&self, i: usize) -> bool {
        self.tasks[i].fut.is_some() && self.tasks[i].flag.0.load(Ordering::SeqCst)
    }
    /// Drop a task's future (cancels it).
    pub fn cancel(&mut self, i: usize) {
        self.tasks[i].fut = None;
    }
}

/// Run one runnable task of the connection's executor, if any.
pub fn tick(conn: &zbus::Connection) -> bool {
    let t = conn.executor().tick();
    let mut t = std::pin::pin!(t);
    poll_once(t.as_mut()).is_ready()
}

/// Run until nothing can make progress: no executor task runnable and no user task woken.
/// `conns`: connections whose executors are ticked.  Returns number of steps taken.
pub fn quiesce(sched: &mut Sched, conns: &[&zbus::Connection], max_steps: usize) -> usize {
    let mut steps = 0;
    loop {
        let mut progressed = false;
        for c in conns {
            while tick(c) {
                progressed = true;
                steps += 1;
                if steps > max_steps {
                    return steps;
                }
            }
        }
        for i in 0..sched.tasks.len() {
            if sched.woken(i) {
                sched.poll(i);
                progressed = true;
                steps += 1;
            }
        }
        if !progressed || steps > max_steps {
            return steps;
        }
    }
}
