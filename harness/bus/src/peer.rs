//! The scripted peer at the other end of a `ScriptSocket`: frames what zbus wrote and crafts inbound
//! messages (replies, errors, strays, signals) with explicit serials.
#![allow(dead_code)]
use crate::script::*;
use serde_json::{json, Value as J};
use std::num::NonZeroU32;
use zbus::message::{Message, Type};
use zbus::zvariant::serialized::{Context, Data};
use zbus::zvariant::Endian;

pub struct Seen {
    pub off: usize,
    pub len: usize,
    pub msg: Message,
}

pub struct Peer {
    pub sh: Sh,
    pub parsed: usize,
    pub seen: Vec<Seen>,
    pub next_serial: u32,
}

pub fn total_len(b: &[u8]) -> Option<usize> {
    if b.len() < 16 {
        return None;
    }
    let le = b[0] == b'l';
    let rd = |x: &[u8]| -> usize {
        let a = [x[0], x[1], x[2], x[3]];
        (if le { u32::from_le_bytes(a) } else { u32::from_be_bytes(a) }) as usize
    };
    let body = rd(&b[4..8]);
    let fields = rd(&b[12..16]);
    let hdr = 16 + fields;
    Some(hdr + (8 - hdr % 8) % 8 + body)
}

pub fn parse(bytes: &[u8]) -> Option<Message> {
    let e = if bytes[0] == b'l' { Endian::Little } else { Endian::Big };
    let d = Data::new(bytes.to_vec(), Context::new_dbus(e, 0));
    unsafe { Message::from_bytes(d) }.ok()
}

impl Peer {
    pub fn new(sh: &Sh) -> Self {
        Peer { sh: sh.clone(), parsed: 0, seen: vec![], next_serial: 0x4000_0000 }
    }

    /// Frame newly written bytes; logs a `Wire` event per complete message. Returns indexes of new messages.
    pub fn pump(&mut self) -> Vec<usize> {
        let mut out = vec![];
        loop {
            let (chunk, off) = {
                let s = self.sh.lock().unwrap();
                let rest = &s.written[self.parsed..];
                match total_len(rest) {
                    Some(n) if rest.len() >= n => (rest[..n].to_vec(), self.parsed),
                    _ => break,
                }
            };
            let n = chunk.len();
            self.parsed += n;
            match parse(&chunk) {
                Some(msg) => {
                    let h = msg.header();
                    let body_id: i64 = first_u32(&msg);
                    let ev = json!({"ev":"Wire","off":off,"len":n,"serial":h.primary().serial_num().get(),
                        "type": type_name(msg.message_type()),
                        "member": h.member().map(|m| m.to_string()).unwrap_or_default(),
                        "noreply": h.primary().flags().contains(zbus::message::Flags::NoReplyExpected),
                        "reply_serial": h.reply_serial().map(|s| s.get()).unwrap_or(0),
                        "id": body_id});
                    let mut ev = ev;
                    if self.sh.lock().unwrap().log_io {
                        ev["bytes"] = json!(chunk);
                    }
                    emit(&self.sh, ev);
                    self.seen.push(Seen { off, len: n, msg });
                    out.push(self.seen.len() - 1);
                }
                None => {
                    emit(&self.sh, json!({"ev":"WireGarbage","off":off,"len":n}));
                }
            }
        }
        out
    }

    pub fn serial(&mut self) -> NonZeroU32 {
        self.next_serial += 1;
        NonZeroU32::new(self.next_serial).unwrap()
    }

    /// method return to seen[i] with body id.
    pub fn reply_to(&mut self, i: usize, id: u32) -> Message {
        let s = self.serial();
        let h = self.seen[i].msg.header();
        Message::method_return(&h).unwrap().serial(s).build(&id).unwrap()
    }
    pub fn error_to(&mut self, i: usize, id: u32) -> Message {
        let s = self.serial();
        let h = self.seen[i].msg.header();
        Message::error(&h, "org.verif.Error.Scripted").unwrap().serial(s).build(&id).unwrap()
    }
    /// A reply nobody is waiting for.
    pub fn stray(&mut self, reply_serial: u32, id: u32, error: bool) -> Message {
        let s = self.serial();
        // Build from a fabricated call header so that reply_serial is the requested one.
        let call = Message::method_call("/verif", "Stray").unwrap().serial(NonZeroU32::new(reply_serial).unwrap()).build(&()).unwrap();
        let h = call.header();
        if error {
            Message::error(&h, "org.verif.Error.Stray").unwrap().serial(s).build(&id).unwrap()
        } else {
            Message::method_return(&h).unwrap().serial(s).build(&id).unwrap()
        }
    }
    pub fn signal(&mut self, path: &str, iface: &str, member: &str, sender: Option<&str>, id: u32) -> Message {
        let s = self.serial();
        let mut b = Message::signal(path, iface, member).unwrap().serial(s);
        if let Some(sn) = sender {
            b = b.sender(sn).unwrap();
        }
        b.build(&id).unwrap()
    }
}

pub fn type_name(t: Type) -> &'static str {
    match t {
        Type::MethodCall => "call",
        Type::MethodReturn => "return",
        Type::Error => "error",
        Type::Signal => "signal",
    }
}

pub fn msg_bytes(m: &Message) -> Vec<u8> {
    m.data().bytes().to_vec()
}

pub fn describe(m: &Message) -> J {
    let h = m.header();
    json!({"type": type_name(m.message_type()), "serial": h.primary().serial_num().get(),
           "reply_serial": h.reply_serial().map(|s| s.get()).unwrap_or(0),
           "id": first_u32(m),
           "member": h.member().map(|m| m.to_string()).unwrap_or_default(),
           "seq": seq_of(m)})
}

/// The receive position as an integer (Sequence is opaque; its Debug form carries the number).
pub fn seq_of(m: &Message) -> u64 {
    let s = format!("{:?}", m.recv_position());
    s.chars().filter(|c| c.is_ascii_digit()).collect::<String>().parse().unwrap_or(0)
}

/// The id carried in a message body: the first `u` of the body (read raw, so that bodies that also
/// carry fds can be identified without the fds).
pub fn first_u32(m: &Message) -> i64 {
    let sig = m.body().signature().to_string();
    if !(sig.starts_with('u') || sig.starts_with("(u")) {
        return -1;
    }
    let b = m.data().bytes();
    let bl = m.primary_header().body_len() as usize;
    if bl < 4 || b.len() < bl {
        return -1;
    }
    let s = &b[b.len() - bl..];
    let a = [s[0], s[1], s[2], s[3]];
    (if b[0] == b'l' { u32::from_le_bytes(a) } else { u32::from_be_bytes(a) }) as i64
}
