//! C15: serial numbers under concurrency and at the 32-bit wrap.
//! `bus serial <out> <threads> <per_thread> <start>`: presets the process-wide counter (verification
//! hook), lets `threads` threads build `per_thread` messages each, logs every serial as (hi, lo) 16-bit
//! halves (TLC integers are 32 bit) in per-thread order.
use serde_json::json;
use std::io::Write;

pub fn cmd(args: &[String]) {
    let out = &args[0];
    let threads: usize = args[1].parse().unwrap();
    let per: usize = args[2].parse().unwrap();
    let start: u32 = args[3].parse().unwrap();
    zbus::message::verif_set_serial_counter(start);
    let barrier = std::sync::Arc::new(std::sync::Barrier::new(threads));
    let mut hs = vec![];
    for t in 0..threads {
        let b = barrier.clone();
        hs.push(std::thread::spawn(move || {
            b.wait();
            let mut v = Vec::with_capacity(per);
            for k in 0..per {
                // alternate construction paths: the message builder and a bare primary header
                let s = if k % 2 == 0 {
                    let m = zbus::message::Message::signal("/a", "a.b", "C").unwrap().build(&()).unwrap();
                    m.primary_header().serial_num().get()
                } else {
                    zbus::message::PrimaryHeader::new(zbus::message::Type::Signal, 0).serial_num().get()
                };
                v.push(s);
            }
            (t, v)
        }));
    }
    let mut w = std::io::BufWriter::new(std::fs::File::create(out).unwrap());
    let mut all: Vec<(usize, Vec<u32>)> = hs.into_iter().map(|h| h.join().unwrap()).collect();
    all.sort();
    // one line per run: the table of serials per thread (hi, lo halves)
    let tbl: Vec<Vec<Vec<u32>>> = all.iter().map(|(_, v)| v.iter().map(|s| vec![s >> 16, s & 0xffff]).collect()).collect();
    writeln!(w, "{}", serde_json::to_string(&json!({"ev":"Serials","id":0,"start_hi":start>>16,"start_lo":start&0xffff,
        "threads":threads,"per":per,"serials":tbl})).unwrap()).unwrap();
}
