//! C15: serial numbers under concurrency and at the 32-bit wrap.
//! `bus serial <out> <threads> <per_thread> <start>`: presets the process-wide counter (verification
//! hook), lets `threads` threads build `per_thread` messages each, logs every serial as (hi, lo) 16-bit
//! halves (TLC integers are 32 bit) in per-thread order.
use serde_json::json;
use std::io::Write;

pub fn cmd(args: &[String]) {
    let out = &args[0];
    let threads: usize = args[1].parse().unwrap();
    let per: usize = args[2].parse().unwrap();
    let start: u32 = args[3].parse().unwrap();
    zbus::message::verif_set_serial_counter(start);
    let barrier = std::sync::Arc::new(std::sync::Barrier::new(threads));
    let mut hs = vec![];
    for t in 0..threads {
        let b = barrier.clone();
        hs.push(std::thread::spawn(move || {
            b.wait();
            let mut v = Vec::with_capacity(per);
            for k in 0..per {
                // alternate construction paths: the message builder and a bare primary header
                let s = if k % 2 == 0 {
                    let m = zbus::message::Message::signal("/a", "a.b", "C").unwrap().build(&()).unwrap();
                    m.primary_header().serial_num().get()
                } else {
                    zbus::message::PrimaryHeader::new(zbus::message::Type::Signal, 0).serial_num().get()
                };
                v.push(s);
            }
            (t, v)
        }));
    }
    let mut w = std::io::BufWriter::new(std::fs::File::create(out).unwrap());
    let mut all: Vec<(usize, Vec<u32>)> = hs.into_iter().map(|h| h.join().unwrap()).collect();
    all.sort();
    // one line per run: the table of serials per thread (hi, lo halves)
    let tbl: Vec<Vec<Vec<u32>>> = all.iter().map(|(_, v)| v.iter().map(|s| vec![s >> 16, s & 0xffff]).collect()).collect();
    writeln!(w, "{}", serde_json::to_string(&json!({"ev":"Serials","id":0,"start_hi":start>>16,"start_lo":start&0xffff,
        "threads":threads,"per":per,"serials":tbl})).unwrap()).unwrap();
}

/// `bus serial-rounds <out> <threads> <per> <rounds>`: many short races in one process.  Before every
/// round the counter is preset (to 0, or just below the 32-bit wrap), then all threads are released
/// together and build `per` messages each; one output line per round.
pub fn cmd_rounds(args: &[String]) {
    use std::sync::atomic::{AtomicBool, AtomicUsize, Ordering::SeqCst};
    let out = &args[0];
    let threads: usize = args[1].parse().unwrap();
    let per: usize = args[2].parse().unwrap();
    let rounds: usize = args[3].parse().unwrap();
    // spin barriers (generation counters): the racing threads must reach the counter within nanoseconds of each
    // other, a futex-based barrier wakes them one by one
    let go = std::sync::Arc::new(AtomicUsize::new(0));
    let done = std::sync::Arc::new(AtomicUsize::new(0));
    let results: std::sync::Arc<std::sync::Mutex<Vec<Vec<u32>>>> = std::sync::Arc::new(std::sync::Mutex::new(vec![vec![]; threads]));
    let stop = std::sync::Arc::new(AtomicBool::new(false));
    let mut hs = vec![];
    for t in 0..threads {
        let (go, done, res, stop) = (go.clone(), done.clone(), results.clone(), stop.clone());
        hs.push(std::thread::spawn(move || {
            let mut gen = 0usize;
            loop {
                gen += 1;
                let mut spins = 0u32;
                while go.load(SeqCst) < gen {
                    if stop.load(SeqCst) {
                        return;
                    }
                    spins += 1;
                    if spins % 4096 == 0 {
                        std::thread::yield_now();
                    } else {
                        std::hint::spin_loop();
                    }
                }
                let mut v = [0u32; 16];
                for slot in v.iter_mut().take(per) {
                    *slot = zbus::message::PrimaryHeader::new(zbus::message::Type::Signal, 0).serial_num().get();
                }
                res.lock().unwrap()[t] = v[..per].to_vec();
                done.fetch_add(1, SeqCst);
            }
        }));
    }
    let mut w = std::io::BufWriter::new(std::fs::File::create(out).unwrap());
    let starts = [0u32, 0, u32::MAX, u32::MAX - 1, 0, u32::MAX - 2, 0, u32::MAX];
    for r in 0..rounds {
        let start = starts[r % starts.len()];
        zbus::message::verif_set_serial_counter(start);
        go.store(r + 1, SeqCst);
        let mut spins = 0u32;
        while done.load(SeqCst) < (r + 1) * threads {
            spins += 1;
            if spins % 1024 == 0 {
                std::thread::yield_now();
            }
        }
        let res = results.lock().unwrap();
        let tbl: Vec<Vec<Vec<u32>>> = res.iter().map(|v| v.iter().map(|s| vec![s >> 16, s & 0xffff]).collect()).collect();
        writeln!(w, "{}", serde_json::to_string(&json!({"ev":"Serials","id":r,"start_hi":start>>16,"start_lo":start&0xffff,
            "threads":threads,"per":per,"serials":tbl})).unwrap()).unwrap();
    }
    stop.store(true, SeqCst);
    for h in hs {
        let _ = h.join();
    }
}
