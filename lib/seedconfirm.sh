#!/bin/sh
# lib/seedconfirm.sh <worktree> <out-dir> <crate> <demo test name> [lib-test args]: re-run the author's demonstration with and
# without the change in the author's worktree (reusing its target dir) and the crate's own unit tests with the change.
wt=$1; out=$2; crate=$3; demo=$4; extra=$5
cd "$wt" || exit 2
git diff -- . ':!*/tests/seed_demo.rs' > /tmp/confirm-$$.patch
files=$(git diff --name-only)
echo "== with change: demo"; cargo test --offline -j 6 -p $crate $extra --test $demo 2>&1 | grep -E "^test result|panicked|FAILED|error" | head -5
echo "== with change: lib tests"; cargo test --offline -j 6 -p $crate $extra --lib 2>&1 | grep -E "^test result" | head -3
git checkout -- $files
echo "== without change: demo"; cargo test --offline -j 6 -p $crate $extra --test $demo 2>&1 | grep -E "^test result|panicked|FAILED|error" | head -5
git apply /tmp/confirm-$$.patch; rm -f /tmp/confirm-$$.patch
