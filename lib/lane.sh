#!/bin/sh
# lib/lane.sh <n> <seed> [checks...]: run one seed in lane n, serialized by a lock file (queue as many as you like in the background)
n=$1; s=$2; shift 2
cd "$(dirname "$0")/.."
exec flock work/lane-$n.lock env SEED_LANE=$n python3 lib/seedtest.py seeded/$s "$@" > work/seedrun-$s.log 2>&1
