#!/bin/sh
# usage: lib/runthorough.sh <logfile> Cxx Cyy ...   -- run the thorough tier of the given checks sequentially
cd "$(dirname "$0")/.."
log=$1; shift
for c in "$@"; do
  s=$(date +%s)
  out=$(timeout 10800 ./check $c --tier thorough 2>&1); rc=$?
  e=$(date +%s)
  echo "$c thorough rc=$rc $((e-s))s $(echo "$out" | grep -c '^KNOWN-FINDING') known $(echo "$out" | grep -c '^VIOLATION') violations" >> $log
  echo "$out" | grep "^VIOLATION\|^  what\|TOOL-ERROR\|MODEL-DRIFT\|Traceback\|Error" | cut -c1-400 | head -12 >> $log
done
echo "LANE DONE" >> $log
