"""Shared machinery of the /verif checks: TLC runner, harness builds, evidence, verdicts.

Exit codes of a check: 0 = property held on everything explored (possibly with KNOWN-FINDING lines),
1 = VIOLATION (line printed, replay file written), 2 = tool failure (never a VIOLATION line).
"""
import hashlib
import json
import os
import re
import shutil
import subprocess
import sys
import time
from concurrent.futures import ThreadPoolExecutor

VERIF = os.path.dirname(os.path.dirname(os.path.abspath(__file__)))
SPEC = os.path.join(VERIF, "spec")
HARNESS = os.path.join(VERIF, "harness")
WORK = os.path.join(VERIF, "work")
EVID = os.path.join(VERIF, "evidence")
REPLAYS = os.path.join(VERIF, "replays")
KNOWN = os.path.join(VERIF, "known_findings.json")
REPO = "/repo"
# Runs against a scratch worktree (VERIF_REPO, used only to try seeded mutations) keep their work files, evidence and
# replays to themselves: the committed evidence/ always describes /repo, and such runs can go on next to ordinary ones.
BASEWORK = WORK
_alt = os.environ.get("VERIF_REPO")
if _alt and os.path.realpath(_alt) != "/repo":
    import hashlib as _h
    _d = os.path.join(WORK, "alt", _h.sha1(os.path.realpath(_alt).encode()).hexdigest()[:10])
    WORK = os.path.join(_d, "w")
    EVID = os.path.join(_d, "evidence")
    REPLAYS = os.path.join(_d, "replays")
    for _x in (WORK, EVID, REPLAYS):
        os.makedirs(_x, exist_ok=True)
TLA_CP = "/opt/veriftools/tla/tla2tools.jar:/opt/veriftools/tla/CommunityModules-deps.jar"


class ToolError(Exception):
    pass


def log(*a):
    print(*a, file=sys.stderr, flush=True)


# --------------------------------------------------------------------------- harness builds
_built = {}


def harness_dir():
    """The harness workspace to build.  Normally /verif/harness (path dependencies on /repo).  With
    VERIF_REPO=/some/scratch/worktree (used only to try seeded mutations without touching /repo) a
    private copy of the workspace is made under work/alt/ with the dependency paths rewritten."""
    alt = os.environ.get("VERIF_REPO")
    if not alt or os.path.realpath(alt) == "/repo":
        return HARNESS
    alt = os.path.realpath(alt)
    d = os.path.join(BASEWORK, "alt", hashlib.sha1(alt.encode()).hexdigest()[:10])
    os.makedirs(d, exist_ok=True)
    for root, dirs, files in os.walk(HARNESS):
        dirs[:] = [x for x in dirs if x != "target"]
        rel = os.path.relpath(root, HARNESS)
        os.makedirs(os.path.join(d, rel), exist_ok=True)
        for fn in files:
            src = os.path.join(root, fn)
            dst = os.path.join(d, rel, fn)
            data = open(src, "rb").read()
            if fn.endswith((".toml", ".rs")):
                data = data.replace(b'"/repo/', b'"' + alt.encode() + b'/')
            if not os.path.exists(dst) or open(dst, "rb").read() != data:
                with open(dst, "wb") as f:
                    f.write(data)
    return d


def build(pkg, features=(), bin_name=None):
    """cargo build the harness package against /repo's working tree; returns a private copy of the binary."""
    key = (pkg, tuple(sorted(features)), bin_name)
    if key in _built:
        return _built[key]
    if pkg == "wire" and features:
        # one package per zvariant feature set (cached artifacts, no relinking when switching)
        alias = {("gvariant",): "wire-gv", ("option-as-array",): "wire-oa", ("gvariant", "option-as-array"): "wire-gvoa"}
        pkg2 = alias[tuple(sorted(features))]
        _built[key] = build(pkg2)
        return _built[key]
    hd = harness_dir()
    cmd = ["cargo", "build", "--offline", "-q", "-p", pkg]
    if bin_name:
        cmd += ["--bin", bin_name]
    if features:
        cmd += ["--features", ",".join(features)]
    env = dict(os.environ, CARGO_NET_OFFLINE="true")
    t0 = time.time()
    # cargo takes a lock on the target dir, so concurrent checks serialize here
    r = subprocess.run(cmd, cwd=hd, env=env, capture_output=True, text=True)
    if r.returncode != 0:
        raise ToolError("cargo build failed for %s %s:\n%s" % (pkg, features, r.stderr[-4000:]))
    name = bin_name or pkg
    src = os.path.join(hd, "target", "debug", name)
    tag = name + ("-" + "-".join(sorted(features)) if features else "")
    os.makedirs(os.path.join(WORK, "bin"), exist_ok=True)
    dst = os.path.join(WORK, "bin", "%s.%d" % (tag, os.getpid()))
    shutil.copy2(src, dst)
    log("[build] %s %s in %.1fs%s" % (pkg, list(features), time.time() - t0, "" if hd == HARNESS else " (alt repo %s)" % os.environ.get("VERIF_REPO")))
    _built[key] = dst
    import atexit
    atexit.register(lambda p=dst: os.path.exists(p) and os.unlink(p))
    return dst


def run_bin(binary, args, timeout=3600, env=None, stdin=None, check=True):
    e = dict(os.environ)
    if env:
        e.update(env)
    timeout = int(timeout * float(os.environ.get("VERIF_TIMEOUT_SCALE", "3")))
    r = subprocess.run([binary] + [str(a) for a in args], capture_output=True, text=True, timeout=timeout, env=e,
                       input=stdin)
    if check and r.returncode != 0:
        raise ToolError("harness %s %s exited %d:\n%s" % (os.path.basename(binary), args, r.returncode, r.stderr[-3000:]))
    return r


# --------------------------------------------------------------------------- TLC
_EMIT = re.compile(r'^<<"([A-Z_]+)", "(.*)">>$')


class TlcResult:
    def __init__(self):
        self.generated = 0
        self.distinct = 0
        self.depth = 0
        self.emits = {}  # tag -> [json objects]
        self.emit_counts = {}
        self.coverage = {}  # action name -> hits
        self.violation = None  # text of an invariant / property violation reported by TLC itself
        self.raw_tail = ""
        self.wall = 0.0
        self.ok = True


def tlc(module, cfg, env=None, workers=8, timeout=1800, simulate=None, depth=None, coverage=False, heap=None,
        deque=False, extra=(), keep_emit_tags=None, emit_to=None, seed=None):
    """Run TLC on spec/<module>.tla (path relative to SPEC or absolute) with config cfg.

    emit_to: dict tag -> open file; emitted JSON strings with that tag are written there (one per line)
    instead of being kept in memory.
    """
    mpath = module if os.path.isabs(module) else os.path.join(SPEC, module)
    cpath = cfg if os.path.isabs(cfg) else os.path.join(SPEC, cfg)
    # timeouts only keep a stuck JVM from hanging the check; they are wall-clock, so leave room for a busy machine
    timeout = int(timeout * float(os.environ.get("VERIF_TIMEOUT_SCALE", "3")))
    meta = os.path.join(WORK, "tlc", "%d_%d" % (os.getpid(), int(time.time() * 1e6) % 10**9))
    os.makedirs(meta, exist_ok=True)
    # java is invoked directly (not through the `tlc` wrapper) so that -Xss also sizes the main thread,
    # which computes the initial states; JAVA_TOOL_OPTIONS would only reach the worker threads.
    jcmd = ["java", "-Xss1g", "-XX:+UseParallelGC", "-XX:ParallelGCThreads=%d" % max(2, min(8, workers)),
            "-Xmx%s" % (heap or "6g"),
            "-DTLA-Library=%s:%s:%s:%s" % (SPEC, os.path.join(SPEC, "mc"), os.path.join(SPEC, "gen"),
                                           os.path.join(SPEC, "trace"))]
    if deque:
        jcmd.append("-Dtlc2.tool.queue.IStateQueue=StateDeque")
    jcmd += ["-cp", TLA_CP, "tlc2.TLC"]
    e = dict(os.environ)
    e.pop("JAVA_TOOL_OPTIONS", None)
    if env:
        e.update({k: str(v) for k, v in env.items()})
    cmd = jcmd + ["-workers", str(workers), "-metadir", meta, "-cleanup", "-noGenerateSpecTE", "-config", cpath]
    if coverage:
        cmd += ["-coverage", "1"]
    if simulate is not None:
        cmd += ["-simulate", "num=%d" % simulate]
    if depth is not None:
        cmd += ["-depth", str(depth)]
    if seed is not None:
        cmd += ["-seed", str(seed)]
    cmd += list(extra) + [mpath]
    res = TlcResult()
    t0 = time.time()
    p = subprocess.Popen(["timeout", str(timeout)] + cmd, cwd=os.path.dirname(mpath), env=e, stdout=subprocess.PIPE,
                         stderr=subprocess.STDOUT, text=True, errors="replace")
    tail = []
    err_mode = False
    err_lines = []
    for line in p.stdout:
        line = line.rstrip("\n")
        m = _EMIT.match(line)
        if m:
            tag = m.group(1)
            try:
                js = json.loads('"' + m.group(2) + '"')
            except Exception:
                continue
            if emit_to and tag in emit_to:
                emit_to[tag].write(js + "\n")
                res.emit_counts[tag] = res.emit_counts.get(tag, 0) + 1
            elif keep_emit_tags is None or tag in keep_emit_tags:
                try:
                    res.emits.setdefault(tag, []).append(json.loads(js))
                except Exception:
                    res.emits.setdefault(tag, []).append(js)
            continue
        tail.append(line)
        if len(tail) > 400:
            tail.pop(0)
        m = re.match(r"^(\d+) states generated, (\d+) distinct states found", line)
        if m:
            res.generated, res.distinct = int(m.group(1)), int(m.group(2))
        m = re.match(r"^The depth of the complete state graph search is (\d+)", line)
        if m:
            res.depth = int(m.group(1))
        m = re.match(r"^<(\w+) line \d+, col \d+ to line \d+, col \d+ of module \w+(?: \([\d ]+\))?>: (\d+):(\d+)", line)
        if m:
            res.coverage[m.group(1)] = res.coverage.get(m.group(1), 0) + int(m.group(3))
        if line.startswith("Error:"):
            err_mode = True
        if err_mode:
            err_lines.append(line)
    rc = p.wait()
    res.wall = time.time() - t0
    res.raw_tail = "\n".join(tail)
    shutil.rmtree(meta, ignore_errors=True)
    if err_lines:
        res.violation = "\n".join(err_lines[:200])
    if rc == 124:
        raise ToolError("TLC timed out after %ss on %s" % (timeout, module))
    if rc != 0 and not res.violation:
        raise ToolError("TLC failed (rc=%d) on %s:\n%s" % (rc, module, res.raw_tail[-3000:]))
    res.ok = rc == 0
    return res


def tlc_generate(module, cfg, out_path, tag="CASE", workers=8, timeout=1800, env=None, simulate=None, depth=None,
                 seed=None):
    """Run a generator spec; write emitted JSON (tag) one per line to out_path with ids added. Returns (TlcResult, n)."""
    tmp = out_path + ".raw"
    with open(tmp, "w") as f:
        r = tlc(module, cfg, workers=workers, timeout=timeout, emit_to={tag: f}, env=env, simulate=simulate,
                depth=depth, seed=seed)
    if r.violation:
        raise ToolError("generator %s reported an error:\n%s" % (module, r.violation))
    n = 0
    seen = set()
    with open(tmp) as f, open(out_path, "w") as g:
        for line in f:
            h = hashlib.sha1(line.encode()).digest()
            if h in seen:
                continue
            seen.add(h)
            line = line.rstrip("\n")
            g.write('{"id":%d,%s\n' % (n, line[1:]) if line.startswith("{") and len(line) > 2 else line + "\n")
            n += 1
    os.unlink(tmp)
    return r, n


def tlc_validate(module, cfg, trace_path, shards=8, timeout=1800, tags=("MISMATCH",), env=None):
    """Shape-A validation: split an ndjson observation file into shards, run TLC on each in parallel
    (every line is an initial state), collect emitted records.  Returns (records by tag, lines, TlcResults)."""
    with open(trace_path) as f:
        lines = [x for x in f.read().split("\n") if x.strip()]
    n = len(lines)
    if n == 0:
        raise ToolError("no observations in %s" % trace_path)
    shards = max(1, min(shards, (n + 199) // 200))
    per = (n + shards - 1) // shards
    paths = []
    for i in range(shards):
        chunk = lines[i * per:(i + 1) * per]
        if not chunk:
            continue
        p = "%s.shard%d" % (trace_path, i)
        with open(p, "w") as f:
            f.write("\n".join(chunk) + "\n")
        paths.append((p, i * per))

    def one(pp):
        p, off = pp
        ee = {"TRACE": p}
        if env:
            ee.update(env)
        r = tlc(module, cfg, env=ee, workers=2, timeout=timeout, keep_emit_tags=set(tags), heap="3g")
        if r.violation:
            raise ToolError("validator %s failed on %s:\n%s" % (module, p, r.violation))
        cnt = sum(1 for _ in open(p))
        if r.distinct != cnt:
            raise ToolError("validator %s consumed %d of %d lines of %s\n%s" % (module, r.distinct, cnt, p, r.raw_tail[-1500:]))
        for tag in tags:
            for rec in r.emits.get(tag, []):
                if isinstance(rec, dict) and "line" in rec:
                    rec["line"] += off
        return r

    with ThreadPoolExecutor(max_workers=len(paths)) as ex:
        results = list(ex.map(one, paths))
    out = {t: [] for t in tags}
    for r in results:
        for t in tags:
            out[t].extend(r.emits.get(t, []))
    for p, _ in paths:
        os.unlink(p)
    return out, lines, results


def tlc_validate_seq(module, cfg, trace_path, shards=8, timeout=1800, tags=("MISMATCH",), reset_ev="Reset", env=None):
    """Sequential (state-machine) trace validation: the trace is split at `Reset` events into shards, each
    consumed event by event by one TLC run (workers=1).  Every shard must be consumed completely
    (TLC search depth = lines + 1).  Returns (records by tag with global line numbers, lines, results)."""
    with open(trace_path) as f:
        lines = [x for x in f.read().split("\n") if x.strip()]
    if not lines:
        raise ToolError("no events in %s" % trace_path)
    starts = [i for i, x in enumerate(lines) if '"ev":"%s"' % reset_ev in x]
    if not starts or starts[0] != 0:
        starts = [0] + starts
    groups = [(starts[i], starts[i + 1] if i + 1 < len(starts) else len(lines)) for i in range(len(starts))]
    shards = max(1, min(shards, len(groups)))
    per = (len(groups) + shards - 1) // shards
    parts = []
    for i in range(shards):
        gs = groups[i * per:(i + 1) * per]
        if not gs:
            continue
        a, b = gs[0][0], gs[-1][1]
        p = "%s.seq%d" % (trace_path, i)
        with open(p, "w") as f:
            f.write("\n".join(lines[a:b]) + "\n")
        parts.append((p, a, b - a))

    def one(pp):
        p, off, n = pp
        ee = {"TRACE": p}
        if env:
            ee.update(env)
        r = tlc(module, cfg, env=ee, workers=1, timeout=timeout, keep_emit_tags=set(tags), heap="3g")
        if r.violation:
            raise ToolError("trace validator %s failed on %s:\n%s" % (module, p, r.violation[:3000]))
        if r.depth != n + 1:
            raise ToolError("trace validator %s consumed %d of %d events of %s\n%s" % (module, r.depth - 1, n, p, r.raw_tail[-1500:]))
        for tag in tags:
            for rec in r.emits.get(tag, []):
                if isinstance(rec, dict) and "line" in rec:
                    rec["line"] += off
        return r

    with ThreadPoolExecutor(max_workers=len(parts)) as ex:
        results = list(ex.map(one, parts))
    out = {t: [] for t in tags}
    for r in results:
        for t in tags:
            out[t].extend(r.emits.get(t, []))
    for p, _, _ in parts:
        os.unlink(p)
    return out, lines, results


# --------------------------------------------------------------------------- known findings
def load_known():
    if not os.path.exists(KNOWN):
        return []
    with open(KNOWN) as f:
        return json.load(f).get("findings", [])


# --------------------------------------------------------------------------- a check run
class Check:
    def __init__(self, pid, level, tier=None, seed=None):
        self.pid = pid
        self.level = level
        self.tier = tier or os.environ.get("VERIF_TIER") or "quick"
        if self.tier not in ("quick", "thorough"):
            self.tier = "quick"
        try:
            self.seed = int(seed if seed is not None else os.environ.get("VERIF_SEED", "1"))
        except ValueError:
            self.seed = 1
        self.t0 = time.time()
        self.work = os.path.join(WORK, pid)
        shutil.rmtree(self.work, ignore_errors=True)
        os.makedirs(self.work, exist_ok=True)
        self.cov = {"samples": []}
        self.assumptions = []
        self.violations = []  # (key, what, replay_obj)
        self.known_hits = {}  # finding id -> count
        self.known = [k for k in load_known() if k.get("property") == pid and k.get("status", "known") == "known"]
        self.notes = []

    @property
    def quick(self):
        return self.tier == "quick"

    def path(self, name):
        return os.path.join(self.work, name)

    def add(self, key, n):
        self.cov[key] = self.cov.get(key, 0) + n

    def sample(self, obj, limit=5):
        if len(self.cov["samples"]) < limit:
            s = json.dumps(obj)
            if len(s) > 1500:
                obj = {"truncated": s[:1500]}
            self.cov["samples"].append(obj)

    def add_tlc(self, r):
        self.add("states", r.distinct)
        self.add("transitions", r.generated)

    def report(self, key, what, replay):
        """A failing observation. `key` identifies the class of failing input (matched against known findings)."""
        for kf in self.known:
            if kf["key"] == key or (kf.get("key_prefix") and key.startswith(kf["key_prefix"])):
                self.known_hits.setdefault(kf["id"], [0, kf])[0] += 1
                return "known"
        self.violations.append((key, what, replay))
        return "violation"

    def finish(self):
        wall = time.time() - self.t0
        rc = 0
        for fid, (n, kf) in sorted(self.known_hits.items()):
            print("KNOWN-FINDING: property=%s %s (%s; %d observations)" % (self.pid, kf["what"], fid, n))
        self.cov["known_findings_hit"] = {fid: n for fid, (n, _) in self.known_hits.items()}
        if self.violations:
            rc = 1
            os.makedirs(os.path.join(REPLAYS, self.pid), exist_ok=True)
            seen = set()
            for key, what, replay in self.violations:
                if key in seen:
                    continue
                seen.add(key)
                h = hashlib.sha1(json.dumps(replay, sort_keys=True).encode()).hexdigest()[:12]
                p = os.path.join(REPLAYS, self.pid, h + ".json")
                with open(p, "w") as f:
                    json.dump({"property": self.pid, "key": key, "what": what, "replay": replay}, f)
                if len(seen) <= 20:
                    print("VIOLATION property=%s replay=%s" % (self.pid, p))
                    print("  what: %s (key=%s)" % (str(what)[:500], key))
        self.cov.setdefault("states", 0)
        self.cov.setdefault("transitions", 0)
        self.cov.setdefault("traces_validated_against_impl", 0)
        self.cov.setdefault("evaluations", max(1, self.cov.get("traces_validated_against_impl", 0)))
        self.cov.setdefault("distinct_nontrivial", 0)
        if not self.cov["samples"]:
            self.cov["samples"] = ["(no sample recorded)"]
        ev = {
            "property_id": self.pid,
            "tier": self.tier,
            "seed": self.seed,
            "level": self.level,
            "coverage": self.cov,
            "assumptions": self.assumptions,
            "wall_s": round(wall, 2),
            "violations": len({k for k, _, _ in self.violations}),
        }
        if self.notes:
            ev["coverage"]["notes"] = self.notes
        os.makedirs(EVID, exist_ok=True)
        with open(os.path.join(EVID, self.pid + ".json"), "w") as f:
            json.dump(ev, f)
        log("[%s] tier=%s seed=%d wall=%.1fs violations=%d known=%d" % (
            self.pid, self.tier, self.seed, wall, ev["violations"], len(self.known_hits)))
        return rc


def distinct_count(lines, keyf):
    s = set()
    for x in lines:
        s.add(hashlib.sha1(keyf(x).encode()).digest())
    return len(s)
