#!/bin/sh
# run every registered check's quick tier once, sequentially; summary lines on stdout
cd "$(dirname "$0")/.."
for f in manifest.d/C[0-9][0-9].json; do
  c=$(basename $f .json)
  [ -n "$SKIP" ] && echo "$SKIP" | grep -q "$c" && continue
  s=$(date +%s)
  out=$(./check $c 2>&1); rc=$?
  e=$(date +%s)
  echo "$c rc=$rc $((e-s))s $(echo "$out" | grep -c '^KNOWN-FINDING') known $(echo "$out" | grep -c '^VIOLATION') violations"
  echo "$out" | grep "^VIOLATION\|^  what\|TOOL-ERROR\|MODEL-DRIFT" | cut -c1-300 | head -8
done
