#!/usr/bin/env python3
"""Store a red-team deliverable (/tmp/seedout-<id><r>) as seeded/<id>-<r>: patch.diff, demo, README.md and a meta.json
skeleton (summary / needs are filled in by hand from the author's README).   lib/seedstore.py C13 b "<summary>" "<needs>" """
import json, os, shutil, sys
V = os.path.dirname(os.path.dirname(os.path.abspath(__file__)))
pid, rnd, summary, needs = sys.argv[1:5]
src = "/tmp/seedout-%s%s" % (pid, rnd)
dst = os.path.join(V, "seeded", "%s-%s" % (pid, rnd))
os.makedirs(dst, exist_ok=True)
for f in os.listdir(src):
    p = os.path.join(src, f)
    if os.path.isdir(p):
        shutil.copytree(p, os.path.join(dst, f), dirs_exist_ok=True, ignore=shutil.ignore_patterns("target", "Cargo.lock"))
    elif os.path.getsize(p) < 200000:
        shutil.copy(p, dst)
meta = {"property": pid, "source": "independent sub-agent (given only the property text and a scratch worktree), round 4",
        "summary": summary, "needs": needs, "confirmed": sys.argv[5] if len(sys.argv) > 5 else ""}
json.dump(meta, open(os.path.join(dst, "meta.json"), "w"), indent=1)
print(dst)
