#!/usr/bin/env python3
"""Run checks against a seeded change without touching /repo.

  lib/seedtest.py <seed-dir> [Cxx ...]      e.g.  lib/seedtest.py seeded/C19-a C19 C38

Creates a scratch worktree of /repo's HEAD under /tmp, applies <seed-dir>/patch.diff, runs the given checks (default: the
property named in meta.json) with VERIF_REPO pointing at it, prints which ones raise VIOLATION, records the outcome under
"checks" in meta.json, and removes the worktree and the private harness build again.
"""
import json
import os
import shutil
import subprocess
import sys
import hashlib

V = os.path.dirname(os.path.dirname(os.path.abspath(__file__)))


def main():
    if sys.argv[1] == "--drop-lanes":
        import glob
        for wt in glob.glob("/tmp/seedlane-*"):
            subprocess.run(["git", "-C", "/repo", "worktree", "remove", "--force", wt], capture_output=True)
            shutil.rmtree(os.path.join(V, "work", "alt", hashlib.sha1(os.path.realpath(wt).encode()).hexdigest()[:10]), ignore_errors=True)
        return 0
    sd = os.path.abspath(sys.argv[1])
    meta_p = os.path.join(sd, "meta.json")
    meta = json.load(open(meta_p)) if os.path.exists(meta_p) else {}
    checks = sys.argv[2:] or [meta.get("property")]
    # SEED_LANE=n: a persistent scratch worktree /tmp/seedlane-n whose private harness build (work/alt/<hash>) is kept
    # between seeds, so that only the crates touched by the patch are rebuilt (cargo goes by mtime: the worktree is
    # reset with `git checkout`, not re-created).  Remove lanes at the end with `lib/seedtest.py --drop-lanes`.
    lane = os.environ.get("SEED_LANE")
    wt = "/tmp/seedlane-%s" % lane if lane else "/tmp/seedrun-%s" % os.path.basename(sd)
    if lane and os.path.isdir(wt):
        # (reset, not checkout: `git apply --3way` also stages the change, and `checkout -- .` restores from the index)
        subprocess.run(["git", "-C", wt, "reset", "-q", "--hard"], check=True, capture_output=True)
        subprocess.run(["git", "-C", wt, "clean", "-fdq", "-e", "target"], check=True, capture_output=True)
        subprocess.run(["git", "-C", wt, "checkout", "--detach", subprocess.run(["git", "-C", "/repo", "rev-parse", "HEAD"], capture_output=True, text=True).stdout.strip()], check=True, capture_output=True)
    else:
        subprocess.run(["git", "-C", "/repo", "worktree", "remove", "--force", wt], capture_output=True)
        subprocess.run(["git", "-C", "/repo", "worktree", "add", "--detach", wt, "HEAD"], check=True, capture_output=True)
    try:
        r = subprocess.run(["git", "-C", wt, "apply", "--3way", os.path.join(sd, "patch.diff")], capture_output=True, text=True)
        if r.returncode != 0:
            r = subprocess.run(["git", "-C", wt, "apply", os.path.join(sd, "patch.diff")], capture_output=True, text=True)
        if r.returncode != 0:
            print("patch does not apply:", r.stderr[-500:])
            return 2
        res = {}
        for c in checks:
            env = dict(os.environ, VERIF_REPO=wt)
            p = subprocess.run([os.path.join(V, "check"), c], cwd=V, env=env, capture_output=True, text=True)
            viol = [l for l in p.stdout.splitlines() if l.startswith("VIOLATION")]
            what = [l.strip() for l in p.stdout.splitlines() if l.strip().startswith("what:")]
            res[c] = {"exit": p.returncode, "violations": len(viol), "first": (what[0][:300] if what else "")}
            print("%s: exit %d, %d VIOLATION line(s) %s" % (c, p.returncode, len(viol), what[0][:200] if what else ""))
            if p.returncode == 2:
                print(p.stderr[-800:])
        meta.setdefault("checks", {}).update(res)
        json.dump(meta, open(meta_p, "w"), indent=1)
    finally:
        alt = os.path.join(V, "work", "alt", hashlib.sha1(os.path.realpath(wt).encode()).hexdigest()[:10])
        if lane:
            subprocess.run(["git", "-C", wt, "reset", "-q", "--hard"], capture_output=True)
            subprocess.run(["git", "-C", wt, "clean", "-fdq", "-e", "target"], capture_output=True)
            for x in ("w", "evidence", "replays"):
                shutil.rmtree(os.path.join(alt, x), ignore_errors=True)
        else:
            subprocess.run(["git", "-C", "/repo", "worktree", "remove", "--force", wt], capture_output=True)
            shutil.rmtree(alt, ignore_errors=True)
    return 0


if __name__ == "__main__":
    sys.exit(main())
