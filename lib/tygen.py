"""Code generator for C09: TLC-emitted type shapes (spec/gen/Gen_TypeShapes.tla) -> Rust definitions with
derive(Type, Serialize, Deserialize), a value of each type, and the abstract value that value denotes."""
import json

LEAF = {
    # kind: (rust type, rust value expr, abstract type kind, abstract value)
    "u8": ("u8", "7u8", "y", {"b": [7]}),
    "bool": ("bool", "true", "b", {"b": [0, 0, 0, 1]}),
    "i16": ("i16", "-2i16", "n", {"b": [255, 254]}),
    "u16": ("u16", "258u16", "q", {"b": [1, 2]}),
    "i32": ("i32", "-3i32", "i", {"b": [255, 255, 255, 253]}),
    "u32": ("u32", "0x01020304u32", "u", {"b": [1, 2, 3, 4]}),
    "i64": ("i64", "-4i64", "x", {"b": [255] * 7 + [252]}),
    "u64": ("u64", "0x0102030405060708u64", "t", {"b": [1, 2, 3, 4, 5, 6, 7, 8]}),
    "f64": ("f64", "1.5f64", "d", {"b": [0x3f, 0xf8, 0, 0, 0, 0, 0, 0]}),
    "string": ("String", 'String::from("h\\u{e9}")', "s", {"s": [104, 195, 169]}),
    "path": ("zvariant::OwnedObjectPath", 'zvariant::OwnedObjectPath::try_from("/a/b").unwrap()', "o", {"s": [47, 97, 47, 98]}),
    "sig": ("zvariant::Signature", 'zvariant::Signature::try_from("a{sv}").unwrap()', "g", {"s": [97, 123, 115, 118, 125]}),
    "value": ("zvariant::OwnedValue", "zvariant::OwnedValue::try_from(zvariant::Value::U32(77)).unwrap()", "v", {"t": {"k": "u"}, "v": {"b": [0, 0, 0, 77]}}),
    "duration": ("std::time::Duration", "std::time::Duration::new(3, 7)", None, {"r": [{"b": [0, 0, 0, 0, 0, 0, 0, 3]}, {"b": [0, 0, 0, 7]}]}),
    "ipv4": ("std::net::Ipv4Addr", "std::net::Ipv4Addr::new(1, 2, 3, 4)", None, {"r": [{"b": [1]}, {"b": [2]}, {"b": [3]}, {"b": [4]}]}),
    # the std atomics (library impls behind the harness's transparent wrappers crate::At*); values above the signed maximum
    "at_bool": ("crate::AtBool", "crate::AtBool(std::sync::atomic::AtomicBool::new(true))", "b", {"b": [0, 0, 0, 1]}),
    "at_u8": ("crate::AtU8", "crate::AtU8(std::sync::atomic::AtomicU8::new(0xF7))", "y", {"b": [0xF7]}),
    "at_i16": ("crate::AtI16", "crate::AtI16(std::sync::atomic::AtomicI16::new(-2))", "n", {"b": [255, 254]}),
    "at_u16": ("crate::AtU16", "crate::AtU16(std::sync::atomic::AtomicU16::new(0xF102))", "q", {"b": [0xF1, 2]}),
    "at_i32": ("crate::AtI32", "crate::AtI32(std::sync::atomic::AtomicI32::new(-3))", "i", {"b": [255, 255, 255, 253]}),
    "at_u32": ("crate::AtU32", "crate::AtU32(std::sync::atomic::AtomicU32::new(0xF1020304))", "u", {"b": [0xF1, 2, 3, 4]}),
    "at_i64": ("crate::AtI64", "crate::AtI64(std::sync::atomic::AtomicI64::new(-4))", "x", {"b": [255] * 7 + [252]}),
    "at_u64": ("crate::AtU64", "crate::AtU64(std::sync::atomic::AtomicU64::new(0xF102030405060708))", "t", {"b": [0xF1, 2, 3, 4, 5, 6, 7, 8]}),
}
DER = "#[derive(zvariant::Type, serde::Serialize, serde::Deserialize, PartialEq, Debug, Clone)]"


class Gen:
    def __init__(self):
        self.defs = []
        self.n = 0

    def fresh(self, prefix):
        self.n += 1
        return "%s%d" % (prefix, self.n)

    def ty(self, s):
        """returns (rust type, value expr, abstract value)"""
        c = s["c"]
        if c in LEAF:
            t, v, _, a = LEAF[c]
            return t, v, a
        if c == "vec":
            t, v, a = self.ty(s["e"])
            return "Vec<%s>" % t, "vec![%s, %s]" % (v, v), {"a": [a, a]}
        if c == "map":
            kt, kv, ka = self.ty(s["k"])
            vt, vv, va = self.ty(s["v"])
            return ("std::collections::HashMap<%s, %s>" % (kt, vt), "std::collections::HashMap::from([(%s, %s)])" % (kv, vv),
                    {"a": [{"r": [ka, va]}]})
        if c == "tuple":
            parts = [self.ty(f) for f in s["f"]]
            return "(%s,)" % ", ".join(p[0] for p in parts), "(%s,)" % ", ".join(p[1] for p in parts), {"r": [p[2] for p in parts]}
        if c == "struct":
            parts = [self.ty(f) for f in s["f"]]
            name = self.fresh("S")
            self.defs.append("%s\npub struct %s { %s }" % (DER, name, ", ".join("pub f%d: %s" % (i, p[0]) for i, p in enumerate(parts))))
            return name, "%s { %s }" % (name, ", ".join("f%d: %s" % (i, p[1]) for i, p in enumerate(parts))), {"r": [p[2] for p in parts]}
        if c == "tstruct":
            parts = [self.ty(f) for f in s["f"]]
            name = self.fresh("T")
            self.defs.append("%s\npub struct %s(%s);" % (DER, name, ", ".join("pub " + p[0] for p in parts)))
            return name, "%s(%s)" % (name, ", ".join(p[1] for p in parts)), {"r": [p[2] for p in parts]}
        if c == "newtype":
            t, v, a = self.ty(s["e"])
            name = self.fresh("N")
            self.defs.append("%s\npub struct %s(pub %s);" % (DER, name, t))
            return name, "%s(%s)" % (name, v), a
        if c == "unitenum":
            name = self.fresh("E")
            r = s["repr"]
            if r == "u32":
                self.defs.append("%s\npub enum %s { A, B, C }" % (DER, name))
                return name, "%s::B" % name, {"b": [0, 0, 0, 1]}
            if r == "u8":
                self.defs.append("#[repr(u8)]\n#[derive(zvariant::Type, serde_repr::Serialize_repr, serde_repr::Deserialize_repr, PartialEq, Debug, Clone)]\n"
                                 "pub enum %s { A = 0, B = 1, C = 9 }" % name)
                return name, "%s::B" % name, {"b": [1]}
            self.defs.append('%s\n#[zvariant(signature = "s")]\npub enum %s { A, B, C }' % (DER, name))
            return name, "%s::B" % name, {"s": [66]}
        if c == "dataenum":
            t, v, a = self.ty(s["e"])
            name = self.fresh("D")
            vk = s.get("vk", "newtype")
            idx = {"b": [0, 0, 0, 1]}
            if vk == "newtype":
                self.defs.append("%s\npub enum %s { A(%s), B(%s) }" % (DER, name, t, t))
                return name, "%s::B(%s)" % (name, v), {"r": [idx, a]}
            if vk == "tuple2":
                self.defs.append("%s\npub enum %s { A(%s, u8), B(%s, u8) }" % (DER, name, t, t))
                return name, "%s::B(%s, 7u8)" % (name, v), {"r": [idx, {"r": [a, {"b": [7]}]}]}
            if vk == "struct1":
                self.defs.append("%s\npub enum %s { A { x: %s }, B { x: %s } }" % (DER, name, t, t))
                return name, "%s::B { x: %s }" % (name, v), {"r": [idx, {"r": [a]}]}
            self.defs.append("%s\npub enum %s { A { x: %s, y: u8 }, B { x: %s, y: u8 } }" % (DER, name, t, t))
            return name, "%s::B { x: %s, y: 7u8 }" % (name, v), {"r": [idx, {"r": [a, {"b": [7]}]}]}
        if c == "dict":
            parts = [(f["c"],) + LEAF[f["c"]] for f in s["f"]]
            name = self.fresh("K")
            self.defs.append("#[derive(zvariant::Type, zvariant::SerializeDict, zvariant::DeserializeDict, PartialEq, Debug, Clone)]\n"
                             '#[zvariant(signature = "dict")]\npub struct %s { %s }' % (name, ", ".join("pub f%d: %s" % (i, p[1]) for i, p in enumerate(parts))))
            ents = [{"r": [{"s": [102, 48 + i]}, {"t": {"k": p[3]}, "v": p[4]}]} for i, p in enumerate(parts)]
            return name, "%s { %s }" % (name, ", ".join("f%d: %s" % (i, p[2]) for i, p in enumerate(parts))), {"a": ents}
        raise ValueError("unknown shape " + c)


def generate(shapes_path):
    """shapes_path: ndjson from Gen_TypeShapes.  Returns (rust source, list of expectations)."""
    g = Gen()
    body = []
    exps = []
    for line in open(shapes_path):
        o = json.loads(line)
        t, v, a = g.ty(o["shape"])
        i = o["id"]
        exps.append({"id": i, "shape": o["shape"], "exp_sig": o["sig"], "exp_v": a})
        body.append("    one::<%s>(%d, %s, out);" % (t, i, v))
    src = ("// @generated by lib/tygen.py from spec/gen/Gen_TypeShapes.tla - do not edit\n#![allow(dead_code, non_camel_case_types)]\n"
           "use crate::one;\n\n" + "\n\n".join(g.defs) + "\n\npub fn run_all(out: &mut Vec<serde_json::Value>) {\n" + "\n".join(body) + "\n}\n")
    return src, exps
