#!/usr/bin/env python3
"""Assemble /verif/MANIFEST.json from manifest.d/*.json and known_findings.json from known_findings.d/*.json.

manifest.d/<Cxx>.json: {"module": "props.<mod>", "check": {<a MANIFEST checks[] entry without the commands>}}
Commands are filled in uniformly: ./check <id> --tier quick|thorough.
Properties without a manifest.d entry are listed under not_applicable with the reason from na_reasons.json
(or a default).  Run after adding / changing an entry:  python3 lib/mkmanifest.py
"""
import glob
import json
import os

V = os.path.dirname(os.path.dirname(os.path.abspath(__file__)))
base = json.load(open(os.path.join(V, "manifest.base.json")))
props = [json.loads(l)["id"] for l in open(os.path.join(V, "properties.jsonl"))]
na = {}
p = os.path.join(V, "manifest.d", "na_reasons.json")
if os.path.exists(p):
    na = json.load(open(p))
checks = []
have = set()
for f in sorted(glob.glob(os.path.join(V, "manifest.d", "C[0-9][0-9].json"))):
    e = json.load(open(f))
    pid = os.path.basename(f)[:-5]
    c = dict(e["check"])
    c["property_id"] = pid
    c["quick_cmd"] = "./check %s --tier quick" % pid
    c["thorough_cmd"] = "./check %s --tier thorough" % pid
    c["evidence_file"] = "/verif/evidence/%s.json" % pid
    c["replay_cmd_template"] = "./check %s --replay {path}" % pid
    checks.append(c)
    have.add(pid)
base["checks"] = checks
base["not_applicable"] = [
    {"property_id": i, "reason": na.get(i, "check not built yet (work in progress; plan in DESIGN.md section 5)")}
    for i in props if i not in have]
json.dump(base, open(os.path.join(V, "MANIFEST.json"), "w"), indent=1)
fs = []
for f in sorted(glob.glob(os.path.join(V, "known_findings.d", "*.json"))):
    fs.extend(json.load(open(f)).get("findings", []))
json.dump({"findings": fs}, open(os.path.join(V, "known_findings.json"), "w"), indent=1)
print("MANIFEST.json: %d checks, %d not_applicable; known_findings.json: %d entries" % (len(checks), len(base["not_applicable"]), len(fs)))
