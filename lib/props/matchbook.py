"""C37: bus match registrations mirror live signal subscriptions (spec/MatchBook.tla, spec/trace/MatchMon.tla)."""
import json
import random

import core


def adversarial():
    out = []
    out.append([["sub", 1, "A", 2], ["sub", 2, "A", 2], ["sub", 3, "B", 2], ["quiesce"], ["dropstream", 1], ["quiesce"], ["dropstream", 2], ["quiesce"],
                ["sub", 4, "A", 1], ["quiesce"], ["dropstream", 4], ["dropstream", 3], ["quiesce"]])
    # drop while the AddMatch reply is outstanding; re-subscribe while the RemoveMatch reply is outstanding
    out.append([["busauto", False], ["sub", 1, "A", 2], ["polls", 1], ["sub", 2, "A", 2], ["polls", 2], ["quiesce"], ["busreply"], ["quiesce"],
                ["dropstream", 1], ["dropstream", 2], ["quiesce"], ["sub", 3, "A", 2], ["polls", 3], ["quiesce"], ["busreply"], ["quiesce"], ["busreply"], ["quiesce"],
                ["busauto", True], ["quiesce"], ["dropstream", 3], ["quiesce"]])
    # AsyncDrop of one of two equal streams
    out.append([["sub", 1, "A", 2], ["sub", 2, "A", 2], ["quiesce"], ["asyncdrop", 1], ["quiesce"], ["asyncdrop", 2], ["quiesce"]])
    # drop immediately after create
    out.append([["sub", 1, "A", 2], ["quiesce"], ["dropstream", 1], ["sub", 2, "A", 2], ["quiesce"], ["dropstream", 2], ["quiesce"]])
    # proxies and their signal streams (well-known and unique destinations)
    out.append([["proxysig", 1, "org.verif.Peer", "A"], ["proxysig", 2, "org.verif.Peer", "A"], ["proxysig", 3, ":1.5", "B"], ["sub", 1, "A", 2], ["quiesce"],
                ["dropproxy", 1], ["quiesce"], ["dropproxy", 2], ["dropproxy", 3], ["quiesce"], ["dropstream", 1], ["quiesce"]])
    # clone then drop (known deviation of C20: the clone is not counted)
    out.append([["sub", 1, "A", 2], ["quiesce"], ["clone", 1, 2], ["quiesce"], ["dropstream", 2], ["quiesce"], ["dropstream", 1], ["quiesce"]])
    # rules without a type key are signal subscriptions too (they match every message type); rules for another message
    # type are not; equal member, three different rules
    out.append([["sub", 1, "~A", 2], ["quiesce"], ["sub", 2, "A", 2], ["sub", 3, "^A", 2], ["quiesce"], ["dropstream", 1], ["quiesce"],
                ["sub", 4, "~A", 2], ["quiesce"], ["dropstream", 4], ["dropstream", 3], ["quiesce"], ["dropstream", 2], ["quiesce"]])
    out.append([["sub", 1, "~B", 2], ["sub", 2, "~B", 2], ["quiesce"], ["asyncdrop", 1], ["quiesce"], ["asyncdrop", 2], ["quiesce"],
                ["sub", 3, "~B", 2], ["quiesce"], ["dropstream", 3], ["quiesce"]])
    # one proxy for a well-known name whose first two signal streams are requested at the same time: the hidden
    # NameOwnerChanged subscription is counted once
    out.append([["proxysig2", 1, "org.verif.Peer", "A", "B"], ["quiesce"], ["dropproxy", 1], ["quiesce"]])
    out.append([["busauto", False], ["proxysig2", 1, "org.verif.Peer", "A", "A"], ["pollp", 1], ["quiesce"], ["busreply"], ["quiesce"], ["busreply"], ["quiesce"],
                ["busreply"], ["quiesce"], ["busauto", True], ["quiesce"], ["proxysig", 2, "org.verif.Peer", "A"], ["quiesce"], ["dropproxy", 1], ["quiesce"],
                ["dropproxy", 2], ["quiesce"]])
    return out


def random_steps(rnd):
    steps, live, nxt, px, livep = [], [], 1, 1, []
    auto = True
    for _ in range(rnd.randint(8, 40)):
        r = rnd.random()
        if r < 0.3 and nxt <= 7:
            steps += [["sub", nxt, rnd.choice(["A", "A", "B", "C", "~A", "~B", "^A"]), 2], ["polls", nxt]]
            live.append(nxt)
            nxt += 1
        elif r < 0.5 and live:
            s = rnd.choice(live)
            live.remove(s)
            steps.append([rnd.choice(["dropstream", "dropstream", "asyncdrop"]), s])
        elif r < 0.58 and px <= 3:
            if rnd.random() < 0.35:
                steps += [["proxysig2", px, rnd.choice(["org.verif.Peer", ":1.5"]), rnd.choice(["A", "B"]), rnd.choice(["A", "B"])], ["pollp", px]]
            else:
                steps += [["proxysig", px, rnd.choice(["org.verif.Peer", ":1.5"]), rnd.choice(["A", "B"])], ["pollp", px]]
            livep.append(px)
            px += 1
        elif r < 0.64 and livep:
            p = rnd.choice(livep)
            livep.remove(p)
            steps.append(["dropproxy", p])
        elif r < 0.74:
            auto = not auto
            steps.append(["busauto", auto])
        elif r < 0.86:
            steps.append(["busreply"])
        elif r < 0.93:
            steps.append(["tick"])
        else:
            steps.append(["quiesce"])
    steps += [["busauto", True], ["quiesce"]]
    for p in livep:
        steps.append(["dropproxy", p])
    for s in live[: len(live) // 2]:
        steps.append(["dropstream", s])
    steps += [["quiesce"]]
    return steps


def run(pid, tier, replay):
    chk = core.Check(pid, "model_checking", tier)
    bus = core.build("bus")
    if replay:
        scen = [json.load(open(replay))["replay"]["scenario"]]
    else:
        r = core.tlc("mc/MC_MatchBook.tla", "mc/MC_MatchBook.cfg", workers=4, coverage=True, timeout=900)
        if r.violation:
            raise core.ToolError("MC_MatchBook violates its invariants:\n" + r.violation[:2000])
        if any(n == 0 for a, n in r.coverage.items() if not a.endswith(("Next", "Init", "Spec"))):
            raise core.ToolError("MC_MatchBook: action never taken: %s" % r.coverage)
        chk.add_tlc(r)
        scen = [{"kind": "bus", "bus": True, "steps": s, "origin": "adversarial"} for s in adversarial()]
        rnd = random.Random(chk.seed * 104729 + 37)
        for _ in range(200 if chk.quick else 8000):
            scen.append({"kind": "bus", "bus": True, "steps": random_steps(rnd), "origin": "random"})
    for i, s in enumerate(scen):
        s["id"] = i + 1
    sp = chk.path("scenarios.ndjson")
    with open(sp, "w") as f:
        for s in scen:
            f.write(json.dumps(s) + "\n")
    trace = chk.path("trace.ndjson")
    core.run_bin(bus, ["run", sp, trace], timeout=3000)
    mism, lines, _ = core.tlc_validate_seq("trace/MatchMon.tla", "trace/MatchMon.cfg", trace, shards=10, timeout=3000)
    by_id = {s["id"]: s for s in scen}
    evs = {}
    for ln in lines:
        o = json.loads(ln)
        evs.setdefault(o["scn"], []).append(o)
    for m in mism["MISMATCH"]:
        scn = m["id"]
        key = m["what"]
        if any(e["ev"] == "StreamCloned" for e in evs.get(scn, [])):
            key += ":with-cloned-stream"
        chk.report(key, {"clause": m["what"], "detail": m.get("detail"), "origin": by_id.get(scn, {}).get("origin")},
                   {"scenario": by_id.get(scn), "mismatch": m, "trace": evs.get(scn, [])[:300]})
    chk.add("traces_validated_against_impl", len(scen))
    chk.cov["evaluations"] = len(scen)
    chk.cov["events_validated"] = len(lines)
    chk.cov["bus_calls_observed"] = sum(1 for ln in lines if '"ev":"BusAddMatch"' in ln or '"ev":"BusRemoveMatch"' in ln)
    chk.cov["distinct_nontrivial"] = len({json.dumps(s["steps"]) for s in scen if len(s["steps"]) > 5})
    chk.cov["rule"] = ("scenario = history of stream / proxy creation and drops (overlapping rules, clones) on a bus-mode connection whose peer is an "
                       "in-process fake bus with scripted reply timing; distinct by step list; non-trivial = more than 5 steps")
    for s in scen[:2] + scen[-2:]:
        chk.sample({"origin": s.get("origin"), "steps": s["steps"][:40]})
    chk.assumptions += ["the fake bus (harness/bus) answers SASL, Hello, AddMatch, RemoveMatch, GetNameOwner; rules are compared by their string form as sent to the bus",
                        "for rules owned by proxies only 'never twice / never unknown / gone at the end' is demanded (their rule strings are chosen by zbus)"]
    return chk.finish()
