"""Server-GUID part of C10: zbus::Guid accepts exactly 32 hexadecimal digits via every construction path.

Exposed as `run_guid(chk)` for the C10 module (props of the names group): it adds its observations, MISMATCH
classification and coverage numbers to the caller's core.Check and returns the number of observation lines.  Stand-alone
(for development): python3 -c "import sys; sys.path.insert(0,'lib'); from props import rules_guid as g; sys.exit(g.run('C10', None, None))"
runs it under the id C10guid (evidence/C10guid.json) without touching C10's evidence.

  cases   <- TLC enumerates candidate strings (spec/gen/Gen_Guid.tla: valid ones, every single-character deviation with
             characters adjacent to the hex classes, double deviations, wrong lengths, RFC 4122 text forms and their near
             misses) and checks the grammar's own laws on them; plus seeded random near-valid strings
  observe <- harness/rules guid-obs: TryFrom<&str>, TryFrom<String>, TryFrom<Str>, TryFrom<Cow<str>>, FromStr,
             from_static_str, serde Deserialize of Guid and OwnedGuid from D-Bus bytes, OwnedGuid from JSON, the guid= key
             of Address::from_str
  decide  <- TLC evaluates spec/trace/GuidCheck.tla (GuidGrammar!GuidOk) per path
"""
import json

import core
from props import rules_match as rm


def classify(chk, mism, lines):
    for m in mism:
        obs = json.loads(lines[m["line"] - 1])
        d = m.get("detail") if isinstance(m.get("detail"), dict) else {}
        dev = d.get("dev", "none")
        key = "%s:%s" % (dev, m["what"]) if dev != "none" else "%s:unexplained:%s" % (m["what"], d.get("path", "?"))
        what = {"clause": m["what"], "path": d.get("path"), "string": obs.get("text")}
        chk.report(key, what, {"observation": {"ev": "Guid", "s": obs["s"]}, "mismatch": m})


def run_guid(chk, binp=None, replay_obs=None):
    rm.local_known(chk, ["C10guid"], prop="C10")
    binp = binp or rm.build("rules")
    cases = chk.path("guid_cases.ndjson")
    if replay_obs is not None:
        with open(cases, "w") as f:
            f.write(json.dumps({"id": 0, "s": replay_obs["s"]}) + "\n")
        n = 1
        extra = []
    else:
        g, n = core.tlc_generate("gen/Gen_Guid.tla", "gen/Gen_Guid.cfg", cases, timeout=1500)
        if n == 0:
            raise core.ToolError("Gen_Guid emitted no case")
        chk.add_tlc(g)
        chk.add("guid_mc_states", g.distinct)
        extra = [2000 if chk.quick else 100000, chk.seed]
    obs = chk.path("guid_obs.ndjson")
    core.run_bin(binp, ["guid-obs", cases, obs] + extra)
    out, lines = rm.validate(chk, "GuidCheck", obs, shards=3 if chk.quick else 12)
    classify(chk, out["MISMATCH"], lines)
    objs = [json.loads(x) for x in lines]
    calls = sum(len(o["paths"]) for o in objs)
    accepted = sum(1 for o in objs for p in o["paths"] if p["ok"])
    if replay_obs is None and (accepted == 0 or accepted == calls):
        raise core.ToolError("vacuous GUID run: all construction calls had the same outcome")
    chk.add("guid_candidates", len(lines))
    chk.add("guid_enumerated", n)
    chk.add("guid_construction_calls", calls)
    chk.add("guid_calls_accepted", accepted)
    chk.cov["guid_paths"] = sorted({p["p"] for o in objs for p in o["paths"]})
    for o in objs[:1] + objs[-1:]:
        chk.sample({"guid_candidate": o.get("text"), "accepted_by": [p["p"] for p in o["paths"] if p["ok"]]})
    chk.assumptions.append("GUID candidates are UTF-8 strings (every construction path takes a str); upper- and lower-case hex "
                           "digits are both digits (D-Bus specification: 'hex-encoded')")
    return len(lines)


def run(pid, tier, replay):
    chk = core.Check("C10guid", "model_checking", tier)
    binp = rm.build("rules")
    rp = None
    if replay:
        with open(replay) as f:
            rp = json.load(f)["replay"]["observation"]
    n = run_guid(chk, binp, rp)
    chk.cov["evaluations"] = chk.cov.get("guid_construction_calls", n)
    chk.cov["distinct_nontrivial"] = n
    chk.cov["rule"] = "distinct candidate strings; every one is a near miss of the grammar or a valid GUID"
    chk.cov["exhaustive"] = True
    return chk.finish()
