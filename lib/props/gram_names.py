"""C10: names and object paths are validated exactly per the D-Bus specification, on every construction path.

Pipeline
  cases   <- TLC (spec/gen/Gen_Names.tla) enumerates every string over the alphabets of relevant character
             classes up to the bound, plus the limit families (254 / 255 / 256 bytes for every shape of name,
             the bus driver's name, typical names); the harness adds seeded random names (grammar + mutation)
  observe <- harness/gram runs every construction path of BusName, UniqueName, WellKnownName, InterfaceName,
             MemberName, ErrorName, PropertyName (zbus_names) and ObjectPath (zvariant) on every string:
             TryFrom<&str / String / Cow / Arc<str> / Str>, from_static_str, the Owned* types, conversion from
             Value / OwnedValue, serde Deserialize from D-Bus bytes (directly and through a variant)
  decide  <- TLC evaluates spec/trace/NamesCheck.tla: every path accepts the string iff the predicate of
             spec/Names.tla (written from the D-Bus specification text) holds
The server GUID part of C10 is checked by the zbus-dependent group with Names!GuidOk.
"""
import json
import os
import time

import core
from props.gram_sig import load_own_findings, text, tlc_to_file, spread

VALUE_PATH_WORDS = ("Value", "from a variant")


def path_names(gram):
    r = core.run_bin(gram, ["obs-names", "paths"])
    names = json.loads(r.stdout.strip().split("\n")[-1])
    # NamesCheck.tla attributes positions 9, 10, 11, 12, 15 of the name kinds to the value conversions: make
    # sure the harness still lists exactly those paths there (a tool failure, not a verdict, if it does not)
    for kind, ps in names.items():
        if kind == "objpath":
            continue
        got = {i + 1 for i, p in enumerate(ps) if any(w in p for w in VALUE_PATH_WORDS)}
        if got != {9, 10, 11, 12, 15}:
            raise core.ToolError("path list of the harness and ValuePaths of NamesCheck.tla disagree: %s" % sorted(got))
    return names


def classify(chk, mism, lines, names):
    """MISMATCH records -> verdict keys:
         dev:value_conversion_unvalidated:<kind>   only the derived Value conversions accept an invalid string
         accept:<kind>:<path name>:<direction>      anything else (never matches a known finding)"""
    for m in mism:
        if m.get("what") != "accept":
            raise core.ToolError("validator reported an unknown clause: %s" % json.dumps(m)[:500])
        obs = json.loads(lines[m["line"] - 1])
        s = text(obs["s"])
        replay = {"case": {"s": obs["s"], "fam": obs.get("fam", "")}, "observation": obs, "mismatch": m}
        if m.get("dev"):
            for kind in m["kinds"]:
                chk.report("dev:%s:%s" % (m["dev"], kind), {"clause": "accept", "kind": kind, "string": s}, replay)
            continue
        for kind, d in m["kinds"].items():
            for i in d.get("value_conversion_unvalidated", []):
                chk.report("dev:value_conversion_unvalidated:%s" % kind, {"clause": "accept", "kind": kind, "string": s}, replay)
                break
            for i in d["unexplained"]:
                oc = d["outcomes"][i - 1]
                direction = {0: "rejects-valid", 1: "accepts-invalid", 2: "panic", 5: "alters"}.get(oc, "outcome-%s" % oc)
                pname = names[kind][i - 1]
                chk.report("accept:%s:%s:%s" % (kind, pname, direction),
                           {"clause": "accept", "kind": kind, "path": pname, "string": s, "valid_per_spec": d["valid"],
                            "outcome": direction}, replay)


def model_check(chk):
    r = core.tlc("mc/MC_Names.tla", "mc/MC_Names.cfg" if chk.quick else "mc/MC_Names_thorough.cfg", workers=4, timeout=1200)
    if r.violation:
        raise core.ToolError("MC_Names: the predicates of Names.tla contradict each other:\n%s" % r.violation[:3000])
    maxlen = 4 if chk.quick else 5
    want = sum(8 ** k for k in range(maxlen + 1))
    if r.distinct != want:   # vacuity guard: the only action must have produced every string of the bounded space
        raise core.ToolError("MC_Names explored %d states, expected all %d strings" % (r.distinct, want))
    chk.add_tlc(r)
    chk.cov["mc_states"] = r.distinct


def run(pid, tier, replay):
    chk = core.Check(pid, "model_checking", tier)
    load_own_findings(chk, pid)
    gram = core.build("gram")
    names = path_names(gram)
    if replay:
        return do_replay(chk, gram, names, replay)
    quick = chk.quick
    t = [time.time()]

    def lap(what):
        t.append(time.time())
        core.log("[%s] %-28s %.1fs" % (pid, what, t[-1] - t[-2]))

    model_check(chk)
    lap("model check of the spec")
    raw = chk.path("gen_names.out")
    g = tlc_to_file("gen/Gen_Names.tla", "gen/Gen_Names_quick.cfg" if quick else "gen/Gen_Names_thorough.cfg", raw,
                    workers=8, timeout=3000)
    chk.add_tlc(g)
    lap("TLC enumeration")
    obs = chk.path("obs.ndjson")
    summ = json.loads(core.run_bin(gram, ["obs-names", raw, obs]).stdout.strip().split("\n")[-1])
    os.unlink(raw)
    if summ["cases"] != g.distinct or summ["skipped_not_utf8"]:
        raise core.ToolError("harness replayed %s, TLC enumerated %d states" % (summ, g.distinct))
    # impl -> spec: seeded random names (grammar + mutation, lengths up to ~300 with a cluster at the limit)
    nr = 600 if quick else 60000
    rcases = chk.path("rand_cases.ndjson")
    core.run_bin(gram, ["obs-names", "rand", nr, chk.seed, rcases])
    robs = chk.path("obs_rand.ndjson")
    rsumm = json.loads(core.run_bin(gram, ["obs-names", rcases, robs]).stdout.strip().split("\n")[-1])
    with open(obs, "a") as f, open(robs) as r:
        f.write(r.read())
    os.unlink(robs)
    lap("harness")
    shards = 10 if quick else 14
    spread(obs, shards)
    mism, lines, rs = core.tlc_validate("trace/NamesCheck.tla", "trace/NamesCheck.cfg", obs, shards=shards, timeout=3000)
    for r in rs:
        chk.add_tlc(r)
    lap("TLC validation")
    if len(lines) != g.distinct + rsumm["cases"]:
        raise core.ToolError("validated %d lines, expected %d" % (len(lines), g.distinct + rsumm["cases"]))
    classify(chk, mism["MISMATCH"], lines, names)
    nkinds = len(names)
    npaths = sum(len(v) for v in names.values())
    chk.add("enumerated_cases", g.distinct)
    chk.add("random_cases", rsumm["cases"])
    chk.cov["exhaustive"] = True
    chk.add("traces_validated_against_impl", len(lines))
    chk.cov["evaluations"] = len(lines) * nkinds       # one predicate evaluation per string and kind
    chk.cov["constructions_observed"] = len(lines) * npaths
    chk.cov["kinds"] = sorted(names)
    chk.cov["paths_per_kind"] = {k: len(v) for k, v in names.items()}
    chk.cov["distinct_nontrivial"] = summ["nontrivial"] + rsumm["nontrivial"]
    chk.cov["rule"] = ("cases are distinct strings (TLC states; random names are deduplicated by TLC's state set only within the "
                       "enumeration, so they are counted as drawn); non-trivial = at least 2 bytes, i.e. more than one position "
                       "for a character-class, separator or length rule to apply")
    picks = lines[:: max(1, len(lines) // 5)][:5]
    for x in picks:
        o = json.loads(x)
        chk.sample({"s": text(o["s"]), "fam": o.get("fam"), "outcomes": {k: "".join(str(d) for d in v) for k, v in o["k"].items()}})
    chk.assumptions += [
        "TLC evaluates Names.tla correctly",
        "the harness reports the outcomes of the constructor calls faithfully (harness/gram/src/names.rs)",
        "inputs are valid UTF-8 (the API takes &str); invalid UTF-8 and NUL bytes belong to the string decoder (C03)",
        "'org.freedesktop.DBus' is accepted as a unique name by design of zbus_names (the bus driver's sender name)",
    ]
    # the server-GUID part of C10 lives in a zbus-dependent crate (harness/rules) with its own grammar module
    from props import rules_guid
    ev = chk.cov.get("evaluations", 0)
    ng = rules_guid.run_guid(chk)
    chk.cov["evaluations"] = ev + chk.cov.get("guid_construction_calls", ng)
    return chk.finish()


def do_replay(chk, gram, names, path):
    with open(path) as f:
        rp = json.load(f)
    if "case" not in rp["replay"] and "observation" in rp["replay"]:
        from props import rules_guid          # a replay of the GUID part
        rules_guid.run_guid(chk, replay_obs=rp["replay"]["observation"])
        return chk.finish()
    case = rp["replay"]["case"]
    cases = chk.path("replay_case.ndjson")
    with open(cases, "w") as f:
        f.write(json.dumps({"id": 0, "s": case["s"], "fam": case.get("fam") or "replay"}) + "\n")
    obs = chk.path("replay_obs.ndjson")
    core.run_bin(gram, ["obs-names", cases, obs])
    mism, lines, rs = core.tlc_validate("trace/NamesCheck.tla", "trace/NamesCheck.cfg", obs, shards=1)
    for r in rs:
        chk.add_tlc(r)
    classify(chk, mism["MISMATCH"], lines, names)
    chk.add("traces_validated_against_impl", len(lines))
    chk.cov["evaluations"] = len(lines) * len(names)
    chk.sample(json.loads(lines[0]))
    return chk.finish()
