"""C36: well-known name bookkeeping follows the bus (spec/NameBook.tla).

Pipeline:
  model   <- TLC checks NameBook (specification-conforming bus + in-order channel + client) exhaustively: the
             knowledge rules used by the monitor equal the bus' real state at quiescence, the client as designed never
             gives a wrong local answer; the client as built (recorded deviation) must violate that
  cases   <- TLC enumerates the behaviours of that bus model, projected on API calls and bus messages (Gen_NameBook)
  observe <- harness/proxy replays each against Connection::request_name_with_flags / release_name over a fake bus
  decide  <- TLC evaluates spec/trace/NameBookTrace.tla on every log (NameBook!Monitor; deviations via ClientExplains)
"""
import json

import core
from props import proxy_owner as po

ACTIONS = ["OtherTakes", "OtherReplacesUs", "OtherReleases", "Forge", "BusRequest", "BusRelease", "Recv", "ApiRequest", "ApiRelease"]


def key_names(m, obs):
    ex = m.get("explained_by") or []
    if ex:
        return "%s:%s" % ("+".join(sorted(ex)), m["what"])      # explained by a named deviation of the spec
    # class of failing history: clause + what the client knew + how it answered
    info = (m.get("detail") or {}).get("info") if isinstance(m.get("detail"), dict) else None
    if isinstance(info, dict):
        return "%s:%s:%s:%s" % (m["what"], info.get("knowledge"), "bus" if info.get("via_bus") else "local", info.get("result"))
    return m["what"]


def validate(chk, pid, obs_path, cases, shards):
    out, lines, rs = core.tlc_validate("trace/NameBookTrace.tla", "trace/NameBookTrace.cfg", obs_path, shards=shards,
                                       timeout=3000, env=po.FAST_JVM, tags=("MISMATCH", "DRIFT"))
    po.classify(chk, pid, out["MISMATCH"], lines, cases, key_names)
    if out["DRIFT"]:
        msg = "MODEL-DRIFT: %d scenario(s) in which the client asked the bus where the steering model expected a local answer (first id %s)" % (
            len(out["DRIFT"]), out["DRIFT"][0].get("id"))
        core.log(msg)
        chk.notes.append(msg)
    return lines


def run(pid, tier, replay):
    chk = po.new_check(pid, tier)
    binary = core.build("proxy")
    if replay:
        return po.do_replay(chk, pid, binary, replay, "c36", validate)
    quick = chk.quick
    with po.Phase(chk, "model_check"):
        po.model_check(chk, "mc/MC_NameBook.tla", "mc/MC_NameBook.cfg" if quick else "mc/MC_NameBook_thorough.cfg", ACTIONS,
                       workers=4 if quick else 8)
        po.expect_violation(chk, "mc/MC_NameBook.tla", "mc/MC_NameBook_dev.cfg", ["NoWrongLocalAnswer"], workers=2)
    cases_path = chk.path("cases.ndjson")
    with po.Phase(chk, "generate"):
        g, n = core.tlc_generate("gen/Gen_NameBook.tla", "gen/Gen_NameBook_quick.cfg" if quick else "gen/Gen_NameBook_thorough.cfg",
                                 cases_path, timeout=3000, workers=4)
    chk.add_tlc(g)
    obs_path = chk.path("obs.ndjson")
    with po.Phase(chk, "replay"):
        po.run_sharded(binary, "c36", cases_path, obs_path, procs=6 if quick else 8)
    cases = po.load_cases(cases_path)
    with po.Phase(chk, "validate"):
        lines = validate(chk, pid, obs_path, cases, shards=10 if quick else 14)
    chk.add("enumerated_cases", n)
    chk.cov["exhaustive"] = True
    chk.add("traces_validated_against_impl", len(lines))
    chk.cov["evaluations"] = len(lines)
    dn, cnt, samples = po.stats(
        lines, lambda o: sum(1 for e in o.get("log", []) if e["k"] == "recv") >= 2, lambda o: json.dumps(o.get("log")),
        {"api_results": lambda o: sum(1 for e in o.get("log", []) if e["k"] == "result"),
         "local_answers": lambda o: sum(1 for i, e in enumerate(o.get("log", [])) if e["k"] == "result" and o["log"][i - 1]["k"] == "call"),
         "logs_with_forged_signal": lambda o: int(any(e["k"] == "recv" and e.get("gen") is False for e in o.get("log", [])))})
    chk.cov["distinct_nontrivial"] = dn
    chk.cov.update(cnt)
    chk.cov["rule"] = ("cases = every behaviour of the NameBook bus model with <= MaxSteps (5 in both tiers: lost - regained - lost again plus the calls that observe it needs five) API calls / other-peer steps, "
                       "every flag set in {none, allow, replace+dnq, allow+dnq}, <= 1 forged (thorough: or other-name) signal placed where a client "
                       "accepting it would change state, x schedule (client run after every message / only before API calls); distinct by recorded "
                       "log; non-trivial = the client received at least two bus messages")
    for o in samples:
        chk.sample({"sched": o.get("sched"), "log": o.get("log")})
    chk.assumptions += [
        "the bus follows the D-Bus specification's RequestName / ReleaseName / queueing rules (NameBook part 2); histories a conforming bus cannot produce are not demanded",
        "API calls are made at quiescent points; a NameLost for a grant without DoNotQueue leaves 'not held' and 'queued' both acceptable (the bus re-queues silently)",
        "the fake bus (harness/proxy/src/fakebus.rs) delivers bytes in the scripted order; TLC evaluates NameBook.tla correctly",
    ]
    return chk.finish()
