"""C27: introspection data is well-formed and matches wire behaviour.

  program    TLC-generated interface shapes + registration trees (props.iface_rpc.make_program)
  observe    harness/iface `intro`: the Introspect reply of every node of every tree (raw XML + zbus_xml read-back);
             `rpc` (correct calls only) and `wire`: the signatures the server really accepts and sends
  parse      this module: the XML is parsed with Python's strict expat parser (well-formedness) into the abstract
             document of spec/Introspect.tla; doc comments are kept
  decide     TLC evaluates spec/trace/IntrospectCheck.tla on every line: expected tree (interfaces, child nodes,
             members with declared types, access, EmitsChangedSignal) computed from the shapes + tree, zbus_xml's
             reading equal to the strict parser's, declared types equal to the wire signatures
"""
import json
import xml.etree.ElementTree as ET

import core
from props import iface_rpc as common

EMITS = "org.freedesktop.DBus.Property.EmitsChangedSignal"


def comment_lines(text):
    lines = [x.strip() for x in (text or "").split("\n")]
    while lines and not lines[0]:
        lines.pop(0)
    while lines and not lines[-1]:
        lines.pop()
    return lines


def args_of(el):
    return [{"name": a.get("name", ""), "type": a.get("type", ""), "dir": a.get("direction", "")} for a in el if a.tag == "arg"]


def node_tree(el, docs, extras):
    """Abstract document of a <node> element (same form as harness/iface zx_tree) + doc comments + unknown things."""
    ifaces = []
    nodes = []
    for ch in el:
        if ch.tag is ET.Comment:
            continue
        if ch.tag == "interface":
            methods, signals, props = [], [], []
            pending = None
            for m in ch:
                if m.tag is ET.Comment:
                    pending = comment_lines(m.text)
                    continue
                if m.tag == "method":
                    methods.append({"name": m.get("name", ""), "args": args_of(m)})
                elif m.tag == "signal":
                    signals.append({"name": m.get("name", ""), "args": [dict(a, dir="") for a in args_of(m)]})
                elif m.tag == "property":
                    ann = [{"name": a.get("name", ""), "value": a.get("value", "")} for a in m if a.tag == "annotation"]
                    props.append({"name": m.get("name", ""), "type": m.get("type", ""), "access": m.get("access", ""), "annots": ann})
                else:
                    extras.append("%s in interface" % m.tag)
                    pending = None
                    continue
                if pending is not None:
                    docs.append({"iface": ch.get("name", ""), "member": m.get("name", ""), "lines": pending})
                pending = None
            ifaces.append({"name": ch.get("name", ""), "methods": methods, "signals": signals, "props": props})
        elif ch.tag == "node":
            nodes.append({"name": ch.get("name", ""), "node": node_tree(ch, docs, extras)})
        else:
            extras.append("%s in node" % ch.tag)
    return {"ifaces": ifaces, "nodes": nodes}


def parse_xml(text):
    parser = ET.XMLParser(target=ET.TreeBuilder(insert_comments=True))
    try:
        parser.feed(text)
        root = parser.close()
    except ET.ParseError as e:
        return None, [], [], str(e)
    if root.tag != "node":
        return None, [], [], "root element is <%s>" % root.tag
    docs, extras = [], []
    return node_tree(root, docs, extras), docs, extras, ""


EMPTY = {"ifaces": [], "nodes": []}


def intro_lines(chk, prog, raw_path, out_path):
    """Add the strict parser's reading to every Intro observation; returns (#lines, parsed documents by (tid, path))."""
    parsed = {}
    n = 0
    with open(raw_path) as f, open(out_path, "w") as g:
        for line in f:
            o = json.loads(line)
            xml = o.pop("xml")
            tree, docs, extras, err = (None, [], [], "no reply") if xml is None else parse_xml(xml)
            o["py_ok"] = tree is not None
            o["py"] = tree if tree is not None else EMPTY
            o["py_err"] = err
            o["docs"] = docs
            o["zx_ok"] = o["zx"] is not None
            if o["zx"] is None:
                o["zx"] = EMPTY
            o["xml_len"] = len(xml or "")
            if extras:
                chk.notes.append("MODEL-DRIFT: unexpected elements in introspection of %s: %s" % (o["path"], sorted(set(extras))[:5]))
            if tree is not None:
                parsed[(o["tid"], o["path"])] = tree
            g.write(json.dumps(o) + "\n")
            n += 1
    return n, parsed


def declared_iface(tree, name):
    for i in tree["ifaces"]:
        if i["name"] == name:
            return i
    return None


def wire_lines(chk, prog, parsed, rpc_obs, wire_obs, out_path, first_id):
    """Join what the server accepted / sent with what the (well-formed) introspection of the same object declares."""
    tree0 = prog.trees[0]
    path_of = {r["iface"]: r["path"] for r in tree0["regs"]}
    n = 0
    skipped = 0
    with open(out_path, "w") as g:
        def emit(o):
            nonlocal n
            o["id"] = first_id + n
            o["tid"] = 0
            g.write(json.dumps(o) + "\n")
            n += 1
        for line in open(rpc_obs):
            o = json.loads(line)
            k = o["case"]["iface"]
            doc = parsed.get((0, path_of[k]))
            sh = prog.shape(k)
            di = declared_iface(doc, sh["name"]) if doc else None
            dm = next((m for m in di["methods"] if m["name"] == o["case"]["method"]), None) if di else None
            if dm is None:
                skipped += 1
                continue
            ins = "".join(a["type"] for a in dm["args"] if a["dir"] in ("in", ""))
            outs = "".join(a["type"] for a in dm["args"] if a["dir"] == "out")
            ran = len(o["handlers"]) == 1 and o["handlers"][0]["member"] == o["case"]["method"]
            rep = o["replies"][0] if len(o["replies"]) == 1 else None
            emit({"ev": "WireMethod", "iface": k, "ifname": sh["name"], "member": o["case"]["method"],
                  "declared_in": ins, "declared_out": outs, "sent_sig": o["sent"]["sig"], "accepted": ran,
                  "reply_sig": rep["sig"] if rep and rep["type"] == "return" else "?"})
        for line in open(wire_obs):
            o = json.loads(line)
            k = o["iface"]
            doc = parsed.get((0, path_of[k]))
            di = declared_iface(doc, o["ifname"]) if doc else None
            if di is None:
                skipped += 1
                continue
            if o["ev"] == "WireProp":
                dp = next((p for p in di["props"] if p["name"] == o["prop"]), None)
                if dp is None:
                    skipped += 1
                    continue
                emit(dict(o, declared=dp["type"], access=dp["access"], readable=dp["access"] in ("read", "readwrite"),
                          writable=dp["access"] in ("write", "readwrite")))
            else:
                ds = next((s for s in di["signals"] if s["name"] == o["signal"]), None)
                if ds is None:
                    skipped += 1
                    continue
                emit(dict(o, declared="".join(a["type"] for a in ds["args"])))
    return n, skipped


def classify(chk, prog, mism, lines):
    for m in mism:
        what = m["what"]
        if what.startswith("harness-"):
            raise core.ToolError("harness inconsistency: %s / %s" % (json.dumps(m)[:500], lines[m["line"] - 1][:800]))
        d = m.get("detail") if isinstance(m.get("detail"), dict) else {}
        if what.startswith("drift-"):
            note = "MODEL-DRIFT: %s %s" % (what, json.dumps(d)[:200])
            if note not in chk.notes:
                chk.notes.append(note)
                core.log(note)
            continue
        o = json.loads(lines[m["line"] - 1])
        o.pop("py", None)
        o.pop("zx", None)
        replay = {"kind": "introspect", "tier": chk.tier, "niface": prog.niface, "shape_seed": prog.seed, "ntree": len(prog.trees),
                  "observation": o, "mismatch": m}
        devs = d.get("devs") or []
        if devs:
            for dv in devs:
                chk.report("c27:dev:%s" % dv, {"clause": what, "deviation": dv, "detail": d}, replay)
        else:
            cls = what.split(":")[0]
            chk.report("%s:%s" % (cls, o.get("ev")), {"clause": what, "detail": d}, replay)


def model_check(chk):
    r = core.tlc("mc/MC_Introspect.tla", "mc/MC_Introspect.cfg", workers=4, timeout=900)
    if r.violation:
        raise core.ToolError("MC_Introspect: the comparator of Introspect.tla fails its self-check:\n" + r.violation[:3000])
    chk.add_tlc(r)
    chk.cov["mc_selfcheck_cases"] = r.distinct


def observe(chk, prog, batch=0):
    raw = chk.path("intro_raw_%d.ndjson" % batch)
    core.run_bin(prog.binary, ["intro", prog.trees_path, raw], timeout=1500)
    obs = chk.path("intro_obs_%d.ndjson" % batch)
    n, parsed = intro_lines(chk, prog, raw, obs)
    # the wire side: correct calls of every method (TLC-enumerated cases, class "right"), property Gets/Sets, signals
    cases, ncases = common.gen_calls(chk, prog, batch)
    right = chk.path("cases_right_%d.ndjson" % batch)
    with open(cases) as f, open(right, "w") as g:
        for line in f:
            c = json.loads(line)
            if c["cls"] == "right" and not c["noreply"] and not c["fail"]:
                g.write(line)
    rpc_obs = common.observe_calls(chk, prog, right, batch, "wire_rpc")
    wire_obs = chk.path("wire_obs_%d.ndjson" % batch)
    core.run_bin(prog.binary, ["wire", prog.trees_path, prog.shapes_path, wire_obs], timeout=1500)
    wl = chk.path("wire_lines_%d.ndjson" % batch)
    nw, skipped = wire_lines(chk, prog, parsed, rpc_obs, wire_obs, wl, n)
    allp = chk.path("c27_obs_%d.ndjson" % batch)
    with open(allp, "w") as g:
        g.write(open(obs).read())
        g.write(open(wl).read())
    return allp, n, nw, skipped


def run(pid, tier, replay):
    chk = core.Check(pid, "translation_validation", tier)
    if replay:
        return do_replay(chk, replay)
    model_check(chk)
    docs = 0
    samples = []
    for b in range(common.TIERS[chk.tier]["batches"]):
        prog = common.make_program(chk, b)
        allp, n, nw, skipped = observe(chk, prog, b)
        out, lines, rs = core.tlc_validate("trace/IntrospectCheck.tla", "trace/IntrospectCheck.cfg", allp, shards=6,
                                           env=prog.env(), timeout=1500)
        classify(chk, prog, out["MISMATCH"], lines)
        chk.add("programs", len(prog.shapes))
        chk.add("trees", len(prog.trees))
        chk.add("documents", n)
        chk.add("disagreements_checked", n + nw)
        chk.add("wire_comparisons", nw)
        chk.add("wire_comparisons_skipped_illformed_document", skipped)
        chk.add("traces_validated_against_impl", len(lines))
        objs = [json.loads(x) for x in lines]
        chk.add("wellformed_documents", sum(1 for o in objs if o["ev"] == "Intro" and o["py_ok"]))
        chk.add("documents_read_back_by_zbus_xml", sum(1 for o in objs if o["ev"] == "Intro" and o["zx_ok"]))
        docs += n
        samples += [o for o in objs if o["ev"] != "Intro"][:2]
        for o in objs:
            if o["ev"] == "Intro" and o["py_ok"] and len(o["py"]["ifaces"]) > 3 and len(samples) < 5:
                samples.append({"ev": "Intro", "tid": o["tid"], "path": o["path"],
                                "interfaces": [i["name"] for i in o["py"]["ifaces"]], "children": [c["name"] for c in o["py"]["nodes"]],
                                "first_method": (o["py"]["ifaces"][0]["methods"] or [None])[0]})
                break
    chk.cov["evaluations"] = chk.cov.get("disagreements_checked", 0)
    chk.cov["distinct_nontrivial"] = chk.cov.get("wellformed_documents", 0) + chk.cov.get("wire_comparisons", 0)
    chk.cov["rule"] = ("one evaluation per introspected node (document vs expected tree, strict parser vs zbus_xml) and per method / "
                       "property / signal of the canonical tree (declared types vs wire signatures); non-trivial = well-formed "
                       "documents (they contain at least the three standard interfaces) and all wire comparisons")
    for s in samples[:5]:
        chk.sample(s)
    chk.assumptions += [
        "Python's expat parser decides well-formedness; the abstraction of the element tree (this module) and of zbus_xml::Node (harness zx_tree) are faithful",
        "argument names and element order are not compared; doc text differences are reported as MODEL-DRIFT only",
        "declared-vs-wire comparison uses the canonical tree (tree 0) and skips objects whose document is not well-formed",
    ]
    return chk.finish()


def do_replay(chk, path):
    with open(path) as f:
        rp = json.load(f)["replay"]
    prog = common.make_program(chk, 0, niface=rp["niface"], seed=rp["shape_seed"], ntree=rp.get("ntree", 1))
    allp, n, nw, skipped = observe(chk, prog, 0)
    want = rp["observation"]
    keep = chk.path("replay_obs.ndjson")
    with open(allp) as f, open(keep, "w") as g:
        for line in f:
            o = json.loads(line)
            if o["ev"] == want["ev"] and all(o.get(k) == want.get(k) for k in ("tid", "path", "ifname", "member", "prop", "signal")):
                g.write(line)
    out, lines, rs = core.tlc_validate("trace/IntrospectCheck.tla", "trace/IntrospectCheck.cfg", keep, shards=1, env=prog.env())
    classify(chk, prog, out["MISMATCH"], lines)
    chk.add("traces_validated_against_impl", len(lines))
    chk.cov["evaluations"] = len(lines)
    o = json.loads(lines[0])
    o.pop("py", None)
    o.pop("zx", None)
    chk.sample(o)
    return chk.finish()
