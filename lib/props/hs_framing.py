"""C14: the byte stream is framed into exactly the messages sent (spec/Framing.tla).

  MC        TLC checks Framing's invariants for every small environment x chunking x handshake over-read
  spec->impl Gen_Framing enumerates symbolic receive scenarios (cut sets x leftovers x fd placement x set-up x
            size-limit tails); harness/hs replays each through a real zbus connection over a scripted socket
  impl->spec seeded random message sequences / chunkings / leftovers recorded the same way
  decide    spec/trace/FramingTrace.tla consumes every recorded scenario: events the reader model cannot take are
            `drift`; the property clauses (prefix, fds-own, seq-increasing, complete, reject-unread, no-spurious-error,
            no-panic) are evaluated on the observations alone.  A scenario whose clauses fail is a VIOLATION unless the
            reader model with a *listed* deviation explains the whole trace (KNOWN-FINDING).

Also home of the helpers shared by hs_server.py / hs_client.py (sharded sequential trace validation).
"""
import json
import os
import threading
from concurrent.futures import ThreadPoolExecutor

import core

PROPERTY_CLAUSES = {"prefix", "fds-own", "seq-increasing", "complete", "reject-unread", "no-spurious-error", "no-panic"}
DEVS = ["leftfds_zero_pending"]


# --------------------------------------------------------------------------- shared helpers
def split_scenarios(path, start_ev="Reset"):
    """Read an ndjson event file; return list of scenarios, each a list of raw lines (first = Reset)."""
    scs = []
    cur = None
    with open(path) as f:
        for line in f:
            line = line.rstrip("\n")
            if not line:
                continue
            if ('"ev":"%s"' % start_ev) in line[:20000] or ('"ev":"%s"' % start_ev) in line[-200:]:
                cur = []
                scs.append(cur)
            if cur is None:
                raise core.ToolError("trace %s does not start with %s" % (path, start_ev))
            cur.append(line)
    return scs


def validate_sequential(module, cfg, scenarios, workdir, tag, shards=8, timeout=1500, extra_tags=()):
    """Run a sequential trace spec (variable l, DONE acceptance emit) over scenarios split into shards.
    Returns (mismatches [with 'shard' and scenario index 'sci'], tlc results)."""
    n = len(scenarios)
    if n == 0:
        raise core.ToolError("no scenarios to validate for %s" % tag)
    shards = max(1, min(shards, (n + 49) // 50))
    per = (n + shards - 1) // shards
    jobs = []
    for i in range(shards):
        part = scenarios[i * per:(i + 1) * per]
        if not part:
            continue
        p = os.path.join(workdir, "%s.shard%d.ndjson" % (tag, i))
        # line number (1-based) of each scenario's first event inside the shard
        starts = []
        ln = 1
        with open(p, "w") as f:
            for sc in part:
                starts.append(ln)
                for x in sc:
                    f.write(x + "\n")
                ln += len(sc)
        jobs.append((p, i * per, starts, ln - 1, len(part)))

    def one(job):
        p, off, starts, nlines, nsc = job
        r = core.tlc(module, cfg, env={"TRACE": p}, workers=1, timeout=timeout, heap="3g",
                     keep_emit_tags={"MISMATCH", "DONE"} | set(extra_tags))
        if r.violation:
            raise core.ToolError("trace validator %s failed on %s:\n%s" % (module, p, r.violation[:3000]))
        done = r.emits.get("DONE", [])
        if not done or done[-1].get("events") != nlines or done[-1].get("scenarios") != nsc:
            raise core.ToolError("trace validator %s did not consume %s completely (%s of %d events)\n%s" % (
                module, p, done, nlines, r.raw_tail[-1500:]))
        out = []
        import bisect
        for m in r.emits.get("MISMATCH", []):
            k = bisect.bisect_right(starts, m["line"]) - 1
            m = dict(m)
            m["sci"] = off + k
            out.append(m)
        return out, r

    import time
    t0 = time.time()
    with ThreadPoolExecutor(max_workers=len(jobs)) as ex:
        res = list(ex.map(one, jobs))
    core.log("[validate] %s: %d scenarios in %d shards, %.1fs" % (tag, n, len(jobs), time.time() - t0))
    mism = [m for ms, _ in res for m in ms]
    for p, *_ in jobs:
        os.unlink(p)
    return mism, [r for _, r in res]


def run_parallel(fns):
    """Run callables in threads; re-raise the first exception."""
    out = [None] * len(fns)
    errs = []

    def wrap(i, f):
        try:
            out[i] = f()
        except BaseException as e:  # noqa
            errs.append(e)

    ts = [threading.Thread(target=wrap, args=(i, f)) for i, f in enumerate(fns)]
    for t in ts:
        t.start()
    for t in ts:
        t.join()
    if errs:
        raise errs[0]
    return out


_LOCK = threading.RLock()   # re-entrant: conformance() holds it while classify() records drift under it


def add(chk, key, n):
    with _LOCK:
        chk.add(key, n)


def add_tlc(chk, r):
    with _LOCK:
        chk.add_tlc(r)


def load_own_known(chk, pid):
    """known_findings.json is assembled by the lead from known_findings.d/; read our own source file too so the
    check behaves the same before and after that assembly."""
    p = os.path.join(core.VERIF, "known_findings.d", pid + ".json")
    if os.path.exists(p):
        have = {k["id"] for k in chk.known}
        for k in json.load(open(p)).get("findings", []):
            if k.get("property") == pid and k.get("status", "known") == "known" and k["id"] not in have:
                chk.known.append(k)


def check_coverage(r, actions, what):
    missing = [a for a in actions if r.coverage.get(a, 0) == 0]
    if missing:
        raise core.ToolError("%s: actions never taken (vacuous model check): %s" % (what, missing))


# --------------------------------------------------------------------------- C14
MC_ACTIONS = ["HsOver", "HsDone", "TakeLeftHeader", "RecvH", "ParseHeader", "TakeLeftRest", "RecvR", "Eof", "AssignFds", "Deliver"]


def model_check(chk):
    cfg = "mc/MC_Framing_quick.cfg" if chk.quick else "mc/MC_Framing.cfg"
    r = core.tlc("mc/MC_Framing.tla", cfg, coverage=True, workers=4, timeout=3000)
    if r.violation or not r.ok:
        raise core.ToolError("Framing.tla violates its own invariants (specification error):\n%s" % (r.violation or r.raw_tail)[:3000])
    check_coverage(r, MC_ACTIONS, "MC_Framing")
    add_tlc(chk, r)
    core.log("[mc] %d states in %.1fs" % (r.distinct, r.wall))
    chk.cov["mc_states"] = r.distinct
    chk.cov["mc_actions"] = {a: r.coverage.get(a, 0) for a in MC_ACTIONS}
    if not chk.quick:
        # the invariants do notice the recorded deviation when it is switched on in the model
        d = core.tlc("mc/MC_Framing.tla", "mc/MC_Framing_dev.cfg", workers=4, timeout=3000)
        if not d.violation:
            raise core.ToolError("MC_Framing_dev: the deviation model does not violate the invariants (vacuous)")
        chk.cov["mc_deviation_model_rejected"] = True
    return r


def classify(chk, pid, scenarios, mism, origin, hs, seed_info):
    """Turn the validator's records into verdicts.  scenarios: list of line lists; mism: records with 'sci'."""
    by = {}
    for m in mism:
        by.setdefault(m["sci"], []).append(m)
    failing = sorted(i for i, ms in by.items() if any(m["what"] in PROPERTY_CLAUSES for m in ms))
    drift_only = sorted(i for i, ms in by.items() if not any(m["what"] in PROPERTY_CLAUSES for m in ms))
    for i in drift_only[:20]:
        core.log("MODEL-DRIFT C14 scenario %s: %s" % (json.loads(scenarios[i][0]).get("sc"), json.dumps(by[i][0])[:600]))
    if drift_only:
        chk.notes.append("MODEL-DRIFT: %d %s scenarios not explained by Framing.tla although every property clause held" % (len(drift_only), origin))
        chk.add("model_drift", len(drift_only))
    if not failing:
        return
    # which of them does the reader model with a listed deviation explain completely?
    explained = {}
    for dev in DEVS:
        sub = [scenarios[i] for i in failing]
        dm, rs = validate_sequential("trace/FramingTrace.tla", "trace/FramingTrace_dev_%s.cfg" % dev, sub, chk.work,
                                     "dev_%s_%s" % (dev, origin), shards=4)
        for r in rs:
            chk.add_tlc(r)
        drifted = {m["sci"] for m in dm if m["what"] == "drift"}
        for k, i in enumerate(failing):
            if k not in drifted and i not in explained:
                explained[i] = dev
    for i in failing:
        reset = json.loads(scenarios[i][0])
        clauses = sorted({m["what"] for m in by[i] if m["what"] in PROPERTY_CLAUSES})
        replay = {"origin": origin, "case": reset.get("case"), "sc": reset.get("sc"), "seed_info": seed_info,
                  "clauses": clauses, "records": by[i][:6]}
        if i in explained:
            key = "dev:" + explained[i]
        else:
            key = "%s:%s" % (clauses[0], reset.get("via"))
        chk.report(key, {"clauses": clauses, "scenario": reset.get("sc"), "origin": origin,
                         "detail": [m.get("detail") for m in by[i] if m["what"] in PROPERTY_CLAUSES][:2]}, replay)


def nontrivial(reset):
    """a scenario exercises framing non-trivially if the handshake over-read something, fds travel, a tail is
    present, or some release point falls strictly inside a message"""
    h = reset["hs_len"]
    bounds = set()
    p = h
    for m in reset["msgs"]:
        p += len(m)
        bounds.add(p)
    inside = any((r not in bounds) for r in reset["releases"][:-1])
    return inside or reset["att"] or reset["tailkind"] != "none" or (reset["releases"] and reset["via"] != "auth" and reset["releases"][0] > h)


def conformance(chk, pid, hs, origin, obs_path, seed_info):
    scenarios = split_scenarios(obs_path)
    mism, rs = validate_sequential("trace/FramingTrace.tla", "trace/FramingTrace.cfg", scenarios, chk.work, origin,
                                   shards=6 if origin == "enum" else 2)
    for r in rs:
        add_tlc(chk, r)
    with _LOCK:
        classify(chk, pid, scenarios, mism, origin, hs, seed_info)
    add(chk, "traces_validated_against_impl", len(scenarios))
    add(chk, "evaluations", sum(len(s) for s in scenarios))
    resets = [json.loads(s[0]) for s in scenarios]
    return scenarios, resets


def run(pid, tier, replay):
    chk = core.Check(pid, "model_checking", tier)
    load_own_known(chk, pid)
    hs = core.build("hs")
    if replay:
        return do_replay(chk, pid, hs, replay)
    quick = chk.quick
    all_resets = []
    lock = threading.Lock()

    def enum_part():
        cases = chk.path("cases.ndjson")
        g, n = core.tlc_generate("gen/Gen_Framing.tla", "gen/Gen_Framing_quick.cfg" if quick else "gen/Gen_Framing_thorough.cfg",
                                 cases, timeout=3000, workers=4)
        core.log("[gen] %d cases in %.1fs" % (n, g.wall))
        obs = chk.path("obs_enum.ndjson")
        import time
        t0 = time.time()
        core.run_bin(hs, ["framing-enum", cases, obs], timeout=3000)
        core.log("[replay] %.1fs" % (time.time() - t0))
        scenarios, resets = conformance(chk, pid, hs, "enum", obs, None)
        if len(scenarios) != n:
            raise core.ToolError("replayed %d of %d enumerated cases" % (len(scenarios), n))
        with lock:
            chk.add_tlc(g)
            chk.add("enumerated_cases", n)
            all_resets.extend(resets)
            for s in (scenarios[0], scenarios[len(scenarios) // 2]):
                chk.sample(sample_of(s))

    def rand_part():
        nr = 400 if quick else 40000
        obs = chk.path("obs_rand.ndjson")
        args = ["framing-rand", nr, chk.seed, obs, 6 if quick else 20, 300 if quick else 3000, 0 if quick else 2000]
        core.run_bin(hs, args, timeout=3000)
        scenarios, resets = conformance(chk, pid, hs, "rand", obs, {"args": args[1:3] + args[4:]})
        with lock:
            chk.add("random_scenarios", len(scenarios))
            all_resets.extend(resets)
            for s in scenarios[:2]:
                chk.sample(sample_of(s))

    run_parallel([lambda: model_check(chk), enum_part, rand_part])
    chk.cov["exhaustive"] = True
    import hashlib
    seen = set()
    for r in all_resets:
        if nontrivial(r):
            seen.add(hashlib.sha1(json.dumps([r["msgs"], r["tail"], r["att"], r["releases"], r["via"], r["eof"]]).encode()).digest())
    chk.cov["distinct_nontrivial"] = len(seen)
    chk.cov["rule"] = ("a scenario = (message bytes, tail, fd attachment positions, release points, set-up, eof); distinct by content; "
                       "non-trivial = some release point strictly inside a message, or handshake leftovers, or fds, or a size-limit tail")
    chk.assumptions += [
        "the scripted socket models SCM_RIGHTS semantics: fds travel with one byte of the stream and are returned by the read that returns that byte",
        "valid messages are produced by zbus' own message builder (little and big endian); header-declared fd counts equal the fds attached",
        "Message::recv_position ordering is observed through its Ord implementation",
        "TLC evaluates Framing.tla / FramingTrace.tla correctly",
    ]
    return chk.finish()


def sample_of(lines):
    out = []
    for x in lines[:12]:
        d = json.loads(x)
        for k in ("msgs", "tail", "bytes"):
            if k in d:
                d[k] = "<%d>" % len(d[k])
        out.append(d)
    return out


def do_replay(chk, pid, hs, path):
    with open(path) as f:
        rp = json.load(f)["replay"]
    obs = chk.path("replay_obs.ndjson")
    if rp["origin"] == "enum":
        case = chk.path("replay_case.ndjson")
        with open(case, "w") as f:
            f.write(json.dumps(rp["case"]) + "\n")
        core.run_bin(hs, ["framing-enum", case, obs])
        scenarios = split_scenarios(obs)
    else:
        a = rp["seed_info"]["args"]
        core.run_bin(hs, ["framing-rand", int(rp["sc"]) + 1, a[1], obs] + a[2:])
        scenarios = [s for s in split_scenarios(obs) if json.loads(s[0]).get("sc") == rp["sc"]]
    mism, rs = validate_sequential("trace/FramingTrace.tla", "trace/FramingTrace.cfg", scenarios, chk.work, "replay", shards=1)
    for r in rs:
        chk.add_tlc(r)
    classify(chk, pid, scenarios, mism, rp["origin"], hs, rp.get("seed_info"))
    chk.add("traces_validated_against_impl", len(scenarios))
    chk.cov["evaluations"] = sum(len(s) for s in scenarios)
    chk.sample(sample_of(scenarios[0]))
    return chk.finish()
