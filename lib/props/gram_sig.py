"""C06: signature strings parse exactly per the D-Bus grammar; format / string_len / Eq / Hash / Ord laws.

Pipeline
  cases   <- TLC (spec/gen/Gen_Sig.tla) enumerates every byte string over the signature alphabet up to the
             bound plus the boundary families (length 254..257, 31..34 nested arrays / structs, dict-key
             rules, every type code) and emits each with the verdict of spec/SigGrammar.tla, the parse tree,
             the display form and the length;  a seeded set of random long signatures drawn by the harness
             is annotated by the same specification (Gen_Sig_file.cfg)
  observe <- harness/gram (built without and with zvariant's `gvariant` feature) runs every construction path,
             the formatters, string_len and the Eq / Hash / Ord / PartialEq<&str> comparisons
  decide  <- TLC evaluates spec/trace/SigCheck.tla on every observation line (one MISMATCH per violated clause)
Python only moves files and maps MISMATCH records to verdict keys.

Also exports `tlc_to_file`, `load_own_findings` and `classify_keyed` for the sibling modules gram_names / gram_laws.
"""
import json
import os
import re
import subprocess
import time

import core

CLAUSES = {"accept", "format", "strlen", "eqhash", "repr", "streq", "pair"}


# ----------------------------------------------------------------------------------------------- helpers
def tlc_to_file(module, cfg, out_path, workers=8, timeout=1800, env=None, heap="6g"):
    """Run a generator specification with TLC's output redirected to a file.

    core.tlc() reads TLC's stdout through a pipe line by line, which caps emission at ~15 k cases/s; the
    harness reads the raw TLC output itself (harness/gram/src/cases.rs), so enumeration runs at TLC's speed.
    Returns a core.TlcResult with generated / distinct / wall filled in."""
    mpath = os.path.join(core.SPEC, module)
    cpath = os.path.join(core.SPEC, cfg)
    meta = os.path.join(core.WORK, "tlc", "g%d_%d" % (os.getpid(), int(time.time() * 1e6) % 10**9))
    os.makedirs(meta, exist_ok=True)
    cmd = ["timeout", str(timeout), "java", "-Xss1g", "-XX:+UseParallelGC",
           "-XX:ParallelGCThreads=%d" % max(2, min(8, workers)), "-Xmx%s" % heap,
           "-DTLA-Library=%s:%s:%s:%s" % (core.SPEC, os.path.join(core.SPEC, "mc"), os.path.join(core.SPEC, "gen"),
                                          os.path.join(core.SPEC, "trace")),
           "-cp", core.TLA_CP, "tlc2.TLC", "-workers", str(workers), "-metadir", meta, "-cleanup",
           "-noGenerateSpecTE", "-config", cpath, mpath]
    e = dict(os.environ)
    e.pop("JAVA_TOOL_OPTIONS", None)
    if env:
        e.update({k: str(v) for k, v in env.items()})
    t0 = time.time()
    with open(out_path, "w") as f:
        rc = subprocess.run(cmd, cwd=os.path.dirname(mpath), env=e, stdout=f, stderr=subprocess.STDOUT).returncode
    import shutil
    shutil.rmtree(meta, ignore_errors=True)
    res = core.TlcResult()
    res.wall = time.time() - t0
    # the summary is at the end of the file; errors are lines starting with "Error:"
    with open(out_path, "rb") as f:
        f.seek(0, 2)
        size = f.tell()
        f.seek(max(0, size - 20000))
        tail = f.read().decode("utf-8", "replace")
    res.raw_tail = "\n".join(x for x in tail.split("\n") if not x.startswith("<<"))[-3000:]
    m = re.search(r"(\d+) states generated, (\d+) distinct states found", tail)
    if m:
        res.generated, res.distinct = int(m.group(1)), int(m.group(2))
    if rc == 124:
        raise core.ToolError("TLC timed out after %ss on %s" % (timeout, module))
    err = subprocess.run(["grep", "-m", "1", "-n", "-A", "12", "^Error:", out_path], capture_output=True, text=True).stdout
    if rc != 0 or err or not m:
        raise core.ToolError("generator %s failed (rc=%d):\n%s\n%s" % (module, rc, err[:3000], res.raw_tail[-1500:]))
    return res


def load_own_findings(chk, pid):
    """Known findings of this group live in known_findings.d/<pid>.json; the lead assembles them into
    known_findings.json.  Read the group file as well so that the check does not depend on the assembly."""
    p = os.path.join(core.VERIF, "known_findings.d", pid + ".json")
    if os.path.exists(p):
        have = {k["id"] for k in chk.known}
        for k in json.load(open(p)).get("findings", []):
            if k.get("property") == pid and k.get("status", "known") == "known" and k["id"] not in have:
                chk.known.append(k)


def text(bs, limit=60):
    s = "".join(chr(b) if 32 <= b < 127 else "\\x%02x" % b for b in bs)
    return s if len(s) <= limit else s[:limit] + "...(%d bytes)" % len(bs)


# ----------------------------------------------------------------------------------------------- verdicts
def classify(chk, mism, lines):
    """MISMATCH records -> verdict keys.  Keys name the clause and the class of input:
         dev:<deviation>:accept        the string is accepted although the grammar forbids it, and exactly the
                                       named deviation(s) of SigLaws explain the acceptance
         dev:<deviation>:law:<clause>  a law fails on a string that is only accepted under that deviation
         dev:<deviation>:streq         a string comparison fails in the way the named deviation describes
         <clause>:<dir>:<string>       anything else (never matches a known finding)"""
    notes = {}
    unexplained = {}

    def violation(clause, key, what, replay):
        # one replay file per failing string would be thousands after a formatter bug: keep the first few strings
        # of every clause (the count of the rest goes to the evidence notes)
        unexplained[clause] = unexplained.get(clause, 0) + 1
        if unexplained[clause] <= 6:
            chk.report(key, what, replay)

    for m in mism:
        what = m["what"]
        if what not in CLAUSES:
            raise core.ToolError("validator reported an unknown clause: %s" % json.dumps(m)[:500])
        obs = json.loads(lines[m["line"] - 1])
        d = m.get("detail", {})
        s = text(obs["s"])
        replay = {"case": {"s": obs["s"], "fam": obs.get("fam", "")}, "observation": obs, "mismatch": m}
        if what == "accept":
            devs = d.get("devs") or []
            if d.get("dir") == "accepts-invalid" and devs:
                for dev in devs[0]:
                    chk.report("dev:%s:accept" % dev,
                               {"clause": "accept", "string": s, "build": m["build"], "explained_by": devs[0]}, replay)
            else:
                violation("accept", "accept:%s:%s" % (d.get("dir"), s),
                          {"clause": "accept", "string": s, "build": m["build"], "detail": d}, replay)
            continue
        under = d.get("under") or []
        dd = d.get("d", {})
        if under:
            chk.report("dev:%s:law:%s" % (under[0], what),
                       {"clause": what, "string": s, "build": m["build"], "under_deviation": under, "detail": dd}, replay)
        elif what == "streq" and dd.get("dev"):
            chk.report("dev:%s:streq" % dd["dev"],
                       {"clause": what, "string": s, "other": text(dd.get("t", [])), "got": dd.get("got"),
                        "build": m["build"]}, replay)
        else:
            violation(what, "%s:%s" % (what, s), {"clause": what, "string": s, "build": m["build"], "detail": dd}, replay)
    for clause, n in sorted(unexplained.items()):
        if n > 6:
            chk.notes.append("clause %s: %d failing observations, the first 6 reported" % (clause, n))
    return unexplained


def observe(chk, bins, cases, tag):
    """Run both builds over a case file; returns (path of merged observations, summary of the plain build)."""
    obs_n = chk.path("obs_%s_n.ndjson" % tag)
    obs = chk.path("obs_%s.ndjson" % tag)
    r = core.run_bin(bins["n"], ["obs-sig", cases, obs_n])
    summary = json.loads(r.stdout.strip().split("\n")[-1])
    r = core.run_bin(bins["g"], ["obs-sig", cases, obs, obs_n])
    summary_g = json.loads(r.stdout.strip().split("\n")[-1])
    if summary["cases"] != summary_g["cases"]:
        raise core.ToolError("the two builds saw different numbers of cases: %s / %s" % (summary, summary_g))
    summary["accepted_gvariant"] = summary_g["accepted"]
    os.unlink(obs_n)
    return obs, summary


def spread(obs, shards):
    """core.tlc_validate cuts the file into contiguous shards; deal the lines out by decreasing size so that the
    few long lines (limit families) do not all land in the first shard.  (Order carries no meaning: every line
    is an independent observation.)"""
    with open(obs) as f:
        lines = [x for x in f.read().split("\n") if x]
    lines.sort(key=len, reverse=True)
    with open(obs, "w") as f:
        for i in range(shards):
            for x in lines[i::shards]:
                f.write(x + "\n")


def validate(chk, obs, shards):
    spread(obs, shards)
    mism, lines, rs = core.tlc_validate("trace/SigCheck.tla", "trace/SigCheck.cfg", obs, shards=shards, timeout=3000)
    for r in rs:
        chk.add_tlc(r)
    classify(chk, mism["MISMATCH"], lines)
    return lines


def model_check(chk):
    """Exhaustive TLC check of the specification itself (spec/mc/MC_SigLaws): the deviation-parameterised
    parser with no deviation is the grammar, deviations only ever accept more, formatting round-trips, the
    GVariant extension only adds strings, the string-comparison judgement is reflexive."""
    # no -coverage here: TLC's cost accounting makes the deeply recursive parser ~5x slower.  Vacuity is excluded by
    # the state count instead (the only action, Next, must have produced every string of the bounded space) and by
    # the Counted / DevWitnesses invariants, which fix the number of accepted strings and one witness per deviation.
    r = core.tlc("mc/MC_SigLaws.tla", "mc/MC_SigLaws.cfg" if chk.quick else "mc/MC_SigLaws_thorough.cfg", workers=4,
                 timeout=1200)
    if r.violation:
        raise core.ToolError("MC_SigLaws: the specification violates its own laws:\n%s" % r.violation[:3000])
    nsym, maxlen = (9, 4) if chk.quick else (10, 5)
    want = sum(nsym ** k for k in range(maxlen + 1))
    if r.distinct != want:
        raise core.ToolError("MC_SigLaws explored %d states, expected all %d strings" % (r.distinct, want))
    chk.add_tlc(r)
    chk.cov["mc_states"] = r.distinct
    return r


def run(pid, tier, replay):
    chk = core.Check(pid, "model_checking", tier)
    load_own_findings(chk, pid)
    bins = {"n": core.build("gram"), "g": core.build("gram", features=("gvariant",))}
    if replay:
        return do_replay(chk, bins, replay)
    quick = chk.quick
    t = [time.time()]

    def lap(what):
        t.append(time.time())
        core.log("[%s] %-28s %.1fs" % (pid, what, t[-1] - t[-2]))

    model_check(chk)
    lap("model check of the spec")

    # spec -> impl: bounded-exhaustive enumeration + boundary families
    raw = chk.path("gen_sig.out")
    g = tlc_to_file("gen/Gen_Sig.tla", "gen/Gen_Sig_quick.cfg" if quick else "gen/Gen_Sig_thorough.cfg", raw,
                    workers=8, timeout=3000)
    chk.add_tlc(g)
    lap("TLC enumeration")
    obs, summ = observe(chk, bins, raw, "enum")
    os.unlink(raw)
    if summ["cases"] != g.distinct:
        raise core.ToolError("harness replayed %d cases, TLC enumerated %d states" % (summ["cases"], g.distinct))
    if summ["spec_accepts"] == 0 or summ["spec_accepts"] == summ["cases"]:
        raise core.ToolError("vacuous enumeration: the grammar accepts %d of %d strings" % (summ["spec_accepts"], summ["cases"]))
    # impl -> spec: seeded random longer signatures (drawn from the grammar, half of them mutated); they carry no
    # expectation at all -- SigCheck judges them from the string alone
    nr = 300 if quick else 40000
    rcases = chk.path("rand_cases.ndjson")
    core.run_bin(bins["n"], ["rand-sig", nr, chk.seed, rcases])
    robs, rsumm = observe(chk, bins, rcases, "rand")
    with open(obs, "a") as f, open(robs) as r:
        f.write(r.read())
    os.unlink(robs)
    lap("harness (2 builds)")
    lines = validate(chk, obs, shards=10 if quick else 14)
    lap("TLC validation")
    chk.add("enumerated_cases", g.distinct)
    chk.add("random_cases", rsumm["cases"])
    chk.cov["exhaustive"] = True
    chk.add("traces_validated_against_impl", len(lines))
    if len(lines) != g.distinct + rsumm["cases"]:
        raise core.ToolError("validated %d lines, expected %d" % (len(lines), g.distinct + rsumm["cases"]))
    nontrivial = summ["nontrivial"] + rsumm["nontrivial"]
    total = len(lines)
    picks = [x for x in lines[:: max(1, len(lines) // 400)]]
    picks.sort(key=lambda x: ('"disp"' not in x, -len(x)))
    for x in picks[:2] + picks[len(picks) // 2:len(picks) // 2 + 1] + picks[-2:]:
        o = json.loads(x)
        chk.sample({"s": text(o["s"]), "fam": o.get("fam"), "plain": (o.get("n") or {}).get("acc"),
                    "gvariant": "same" if o.get("same") else (o.get("g") or {}).get("acc"),
                    "display": text((o.get("n") or o.get("g") or {}).get("disp", []))})

    chk.cov["evaluations"] = 2 * total  # every string is judged for the plain and for the GVariant build
    chk.cov["distinct_nontrivial"] = nontrivial
    chk.cov["rule"] = ("cases are distinct byte strings (TLC states / deduplicated random strings); non-trivial = the string "
                       "contains a container or bracket byte (a ( ) { } m), i.e. it exercises a structural rule of the grammar")
    chk.cov["enumerated_accepted_by_spec"] = summ["spec_accepts"]
    chk.cov["accepted_by_impl_plain"] = summ["accepted"] + rsumm["accepted"]
    chk.cov["accepted_by_impl_gvariant"] = summ["accepted_gvariant"] + rsumm["accepted_gvariant"]
    chk.assumptions += [
        "TLC evaluates SigGrammar.tla / SigLaws.tla correctly",
        "the harness reports the outcomes of the zvariant calls faithfully (harness/gram/src/sig.rs)",
        "hash agreement is observed with std's DefaultHasher",
    ]
    chk.notes.append("only 'equal signatures compare Equal' is judged for Ord (what the property states); the converse is observed "
                     "in the pair comparisons but not judged")
    return chk.finish()


def do_replay(chk, bins, path):
    with open(path) as f:
        rp = json.load(f)
    case = rp["replay"]["case"]
    cases = chk.path("replay_case.ndjson")
    with open(cases, "w") as f:
        f.write(json.dumps({"id": 0, "s": case["s"], "fam": case.get("fam") or "replay"}) + "\n")
    raw = chk.path("replay_gen.out")
    g = tlc_to_file("gen/Gen_Sig.tla", "gen/Gen_Sig_file.cfg", raw, workers=1, timeout=600, env={"CASES": cases})
    chk.add_tlc(g)
    obs, summ = observe(chk, bins, raw, "replay")
    lines = validate(chk, obs, shards=1)
    chk.add("traces_validated_against_impl", len(lines))
    chk.cov["evaluations"] = 2 * len(lines)
    chk.sample(json.loads(lines[0]))
    return chk.finish()
