"""C26: method dispatch answers each call exactly once and correctly -- and the machinery shared by the
checks that quantify over *programs* (C26, C27, C28, C33):

  program    <- TLC (spec/gen/Gen_Shapes.tla) emits interface shapes + registration trees
  source     <- lib/iface_codegen.py turns the shapes into harness/iface/src/generated*.rs (rewritten only when
                the text changes; the quick tier's shapes are fixed, so its committed file never changes)
  cases      <- TLC (spec/gen/Gen_Rpc.tla) enumerates calls: method x class x no-reply x handler-fails
  observe    <- harness/iface `rpc` sends them over a deterministic in-process p2p pair and records handler runs
                and every reply (raw bytes)
  decide     <- TLC evaluates spec/trace/RpcTrace.tla (predicates of spec/Rpc.tla) on every recorded call
"""
import json
import os

import core
import iface_codegen

TIERS = {
    # niface: interfaces per program, ntree: registration trees (C27), batches: programs per run
    "quick": {"niface": 16, "ntree": 12, "batches": 1},
    # one program per run: all four properties then share one compilation of generated_thorough.rs
    "thorough": {"niface": 128, "ntree": 80, "batches": 1},
}

DEVS = {
    "noreply_error_sent": "C26-error-reply-despite-no-reply",
    "zero_arg_body_ignored": "C26-zero-arg-method-ignores-body",
    "invalid_args_name": "C26-invalid-args-error-name",
    "no_iface_failed": "C26-no-interface-field-failed",
    "struct_flatten": "C26-struct-vs-flat-arguments",
}


class Program:
    def __init__(self):
        self.shapes = []
        self.trees = []
        self.shapes_path = None
        self.trees_path = None
        self.binary = None
        self.niface = 0
        self.seed = 0
        self.features = ()

    def env(self):
        return {"SHAPES": self.shapes_path, "TREES": self.trees_path}

    def shape(self, k):
        for s in self.shapes:
            if s["id"] == k:
                return s
        raise KeyError(k)


def shape_seed(chk, batch):
    """The quick tier always uses the committed default program (seed 0), so that no recompilation happens;
    the thorough tier derives its programs from VERIF_SEED."""
    if chk.quick:
        return 0
    return (chk.seed * 7 + batch * 13 + 1) % 1000


def write_cfg(chk, name, consts, extra=("INIT Init", "NEXT Next", "INVARIANT Emit", "CHECK_DEADLOCK FALSE")):
    p = chk.path(name)
    with open(p, "w") as f:
        f.write("CONSTANTS\n")
        for k, v in consts.items():
            f.write("  %s = %s\n" % (k, v))
        for line in extra:
            f.write(line + "\n")
    return p


def make_program(chk, batch=0, niface=None, seed=None, ntree=None):
    """Emit the program with TLC, bring the generated source up to date, build the harness, check the binding."""
    t = TIERS[chk.tier]
    prog = Program()
    prog.niface = niface if niface is not None else t["niface"]
    prog.seed = seed if seed is not None else shape_seed(chk, batch)
    ntree = ntree if ntree is not None else t["ntree"]
    cfg = write_cfg(chk, "gen_shapes_%d.cfg" % batch, {"NIFACE": prog.niface, "NTREE": ntree, "SEED": prog.seed})
    r = core.tlc("gen/Gen_Shapes.tla", cfg, workers=2, keep_emit_tags={"SHAPE", "TREE"})
    if r.violation:
        raise core.ToolError("Gen_Shapes failed:\n" + r.violation)
    chk.add_tlc(r)
    prog.shapes = sorted(r.emits.get("SHAPE", []), key=lambda s: s["id"])
    prog.trees = sorted(r.emits.get("TREE", []), key=lambda s: s["tid"])
    if len(prog.shapes) != prog.niface or len(prog.trees) != ntree:
        raise core.ToolError("Gen_Shapes emitted %d shapes / %d trees" % (len(prog.shapes), len(prog.trees)))
    prog.shapes_path = chk.path("shapes_%d.ndjson" % batch)
    prog.trees_path = chk.path("trees_%d.ndjson" % batch)
    with open(prog.shapes_path, "w") as f:
        for s in prog.shapes:
            f.write(json.dumps(s) + "\n")
    with open(prog.trees_path, "w") as f:
        for s in prog.trees:
            f.write(json.dumps(s) + "\n")
    text, h = iface_codegen.generate(prog.shapes)
    default = (prog.niface == TIERS["quick"]["niface"] and prog.seed == 0)
    fname = "generated.rs" if default else "generated_thorough.rs"
    prog.features = () if default else ("thorough",)
    src = os.path.join(core.HARNESS, "iface", "src", fname)
    if iface_codegen.write_if_changed(src, text):
        core.log("[codegen] %s rewritten (%d interfaces, seed %d, hash %s)" % (fname, prog.niface, prog.seed, h))
    core._built.pop(("iface", tuple(sorted(prog.features)), None), None)  # the source may have changed within this run
    prog.binary = core.build("iface", features=prog.features)
    got = core.run_bin(prog.binary, ["hash"]).stdout.split()
    if got[:1] != [h]:
        raise core.ToolError("iface binary was built from other shapes (%s) than this run's (%s)" % (got, h))
    return prog


def model_check(chk):
    """Exhaustive TLC run of the one-call state machine: property holds without deviations, every action is
    taken (vacuity), and with all named deviations enabled every behaviour is explained by them."""
    r = core.tlc("mc/MC_Rpc.tla", "mc/MC_Rpc.cfg", workers=4, coverage=True, timeout=900)
    if r.violation:
        raise core.ToolError("MC_Rpc: the specification violates its own property:\n" + r.violation[:3000])
    chk.add_tlc(r)
    for a in ("Route", "HandlerStart", "HandlerEnd", "SendReply", "SkipReply"):
        if r.coverage.get(a, 0) == 0:
            raise core.ToolError("MC_Rpc: action %s never taken (vacuous model); coverage=%s" % (a, r.coverage))
    r2 = core.tlc("mc/MC_Rpc.tla", "mc/MC_Rpc_devs.cfg", workers=4, coverage=True, timeout=900)
    if r2.violation:
        raise core.ToolError("MC_Rpc (deviations enabled): behaviour not explained by the named deviations:\n" + r2.violation[:3000])
    if r2.coverage.get("Dev_ErrorReplyDespiteNoReply", 0) == 0:
        raise core.ToolError("MC_Rpc: deviation action never taken")
    chk.add_tlc(r2)
    chk.cov["mc_actions"] = r.coverage


def gen_calls(chk, prog, batch=0):
    cfg = write_cfg(chk, "gen_rpc_%d.cfg" % batch, {"NIFACE": prog.niface, "SEED": prog.seed})
    cases = chk.path("cases_%d.ndjson" % batch)
    g, n = core.tlc_generate("gen/Gen_Rpc.tla", cfg, cases, workers=4, timeout=1500)
    chk.add_tlc(g)
    return cases, n


def observe_calls(chk, prog, cases, batch=0, tag="rpc"):
    obs = chk.path("%s_obs_%d.ndjson" % (tag, batch))
    core.run_bin(prog.binary, ["rpc", prog.trees_path, cases, obs], timeout=1200)
    return obs


def validate(chk, prog, obs, shards=6):
    out, lines, rs = core.tlc_validate("trace/RpcTrace.tla", "trace/RpcTrace.cfg", obs, shards=shards, env=prog.env(), timeout=1500)
    return out["MISMATCH"], lines


def classify_calls(chk, prog, mism, lines, want_prefix, batch=0):
    """MISMATCH records -> known findings / violations.  One report per named deviation that is needed to explain
    an observation (each must be a listed finding); an unexplained observation is keyed by clause + call class."""
    for m in mism:
        what = m["what"]
        if what.startswith("harness-"):
            raise core.ToolError("harness inconsistency: %s / %s" % (json.dumps(m)[:500], lines[m["line"] - 1][:800]))
        if not what.startswith(want_prefix):
            continue
        o = json.loads(lines[m["line"] - 1])
        d = m.get("detail") if isinstance(m.get("detail"), dict) else {}
        replay = {"kind": "call", "tier": chk.tier, "niface": prog.niface, "shape_seed": prog.seed,
                  "case": case_of_obs(o), "observation": o, "mismatch": m}
        devs = d.get("devs") or []
        if devs:
            for dv in devs:
                chk.report("c26:dev:%s" % dv, {"clause": what, "deviation": dv, "class": d.get("cls"), "detail": d}, replay)
        else:
            chk.report("%s:%s" % (what, d.get("cls", o.get("ev"))), {"clause": what, "detail": m.get("detail")}, replay)


def case_of_obs(o):
    """Rebuild the TLC case of a recorded call (for --replay)."""
    c = o.get("case", {})
    s = o.get("sent", {})
    return {"id": o.get("id", 0), "iface": c.get("iface"), "method": c.get("method"), "cls": c.get("cls"),
            "noreply": c.get("noreply"), "fail": c.get("fail"),
            "send": {"path": s.get("path"), "iface": s.get("iface"), "member": s.get("member"), "args": s.get("args")}}


def nontrivial_call(o):
    c = o["case"]
    return c["cls"] != "right" or c["noreply"] or c["fail"]


def run(pid, tier, replay):
    chk = core.Check(pid, "model_checking", tier)
    if replay:
        return do_replay(chk, replay)
    model_check(chk)
    total = []
    for b in range(TIERS[chk.tier]["batches"]):
        prog = make_program(chk, b)
        cases, n = gen_calls(chk, prog, b)
        obs = observe_calls(chk, prog, cases, b)
        mism, lines = validate(chk, prog, obs)
        if len(lines) != n:
            raise core.ToolError("harness answered %d of %d cases" % (len(lines), n))
        classify_calls(chk, prog, mism, lines, "c26-", b)
        chk.add("programs", len(prog.shapes))
        chk.add("methods", sum(len(s["methods"]) for s in prog.shapes))
        chk.add("enumerated_cases", n)
        chk.add("traces_validated_against_impl", len(lines))
        objs = [json.loads(x) for x in lines]
        total += objs
        chk.add("handler_runs_observed", sum(len(o["handlers"]) for o in objs))
        chk.add("replies_observed", sum(len(o["replies"]) for o in objs))
    nmut = mutating_handlers(chk)
    chk.cov["exhaustive"] = True
    chk.cov["evaluations"] = len(total) + nmut
    chk.cov["distinct_nontrivial"] = core.distinct_count(
        [o for o in total if nontrivial_call(o)],
        lambda o: json.dumps([o["sent"], o["case"]["fail"]], sort_keys=True))
    chk.cov["rule"] = ("cases = every (interface, method) of the TLC-generated programs x every call class of Gen_Rpc "
                       "(right/wrong/near/missing/extra/restructured arguments, wrong/parent path, wrong/other/no interface, "
                       "wrong/case member) x NO_REPLY_EXPECTED x handler-fails; distinct by the message sent; non-trivial = "
                       "anything but a plain correct call with a reply expected")
    by = {}
    for o in total:
        by.setdefault(o["case"]["cls"], o)
    for cls in ("right", "restructured", "noiface", "wrongmember", "neartype"):
        if cls in by:
            o = by[cls]
            chk.sample({"case": o["case"], "sent": {k: o["sent"][k] for k in ("path", "iface", "member", "sig", "noreply")},
                        "handlers": [{"member": h["member"], "end": h["end"]["kind"]} for h in o["handlers"]],
                        "replies": [{"type": r["type"], "name": r["name"], "sig": r["sig"]} for r in o["replies"]]})
    chk.assumptions += [
        "the generated Rust source (lib/iface_codegen.py) is a faithful rendering of the TLC-emitted shapes; the binary reports the shapes hash it was built from",
        "handler invocations are observed through the log calls the generated handlers make; replies through the client's MessageStream, parsed from raw bytes",
        "all calls run on one thread under a hand-written executor loop; quiescence (no runnable task on either connection) ends each call",
        "TLC evaluates Rpc.tla correctly",
    ]
    return chk.finish()


def mutating_handlers(chk):
    """'Replies exactly once' when the handlers are not pure: handlers that suspend, emit signals and register / remove
    objects through the object server, on interfaces with task spawning enabled and disabled, alone and with property
    accesses in flight (spec/Dispatch.tla, configurations of Gen_Dispatch class c30, replayed under 2 schedules each and
    bound to the specification by DispatchTrace; the monitor's `answered` = every written call got exactly one
    successful reply).  An unanswered call is a C26 violation as much as a C30 one."""
    from props import obj_dispatch as od
    obj = core.build("obj")
    part = chk.path("mut_cfgs.ndjson")
    g, n = core.tlc_generate("gen/Gen_Dispatch.tla", "gen/Gen_Dispatch_c30_quick.cfg", part, timeout=3000, workers=2)
    chk.add_tlc(g)
    obs = chk.path("mut_obs.ndjson")
    core.run_bin(obj, ["disp-replay", part, 2, chk.seed, obs])
    scen, ok, drift = od.decide(chk, "C30", obs, shards=2, workers=3)
    chk.add("mutating_handler_traces", len(scen))
    chk.add("traces_validated_against_impl", ok)
    return sum(len(x["ev"]) for x in scen.values())


def do_replay(chk, path):
    with open(path) as f:
        rp = json.load(f)["replay"]
    if "calls" in rp and "spawn" in rp:
        from props import obj_dispatch as od
        return od.do_replay(chk, "C30", core.build("obj"), path)
    prog = make_program(chk, 0, niface=rp["niface"], seed=rp["shape_seed"], ntree=1)
    cases = chk.path("replay_cases.ndjson")
    with open(cases, "w") as f:
        f.write(json.dumps(rp["case"]) + "\n")
    obs = observe_calls(chk, prog, cases, 0, "replay")
    mism, lines = validate(chk, prog, obs, shards=1)
    classify_calls(chk, prog, mism, lines, "c26-" if chk.pid == "C26" else "c33-")
    chk.add("traces_validated_against_impl", len(lines))
    chk.cov["evaluations"] = len(lines)
    chk.sample(json.loads(lines[0]))
    return chk.finish()
