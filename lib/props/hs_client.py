"""C17: the client side of the SASL handshake (spec/Sasl.tla + spec/SaslClient.tla).

  MC        TLC checks SaslClient (every reply sequence up to a bound x configurations) for DoneOnlyOnOk, CapIffAgreed,
            ConsumedLines, CNeverPanic
  spec->impl Gen_SaslClient enumerates server reply streams (x fd capability x what follows the handshake lines x
            chunkings; x expected GUID same / other over a real unix socket, the only public way to give one)
  impl->spec seeded random reply streams with random trailing messages / fds / junk and random chunking
  decide    spec/trace/SaslClientTrace.tla reads the bytes and classifies: explained / explained only with listed
            deviations (KNOWN-FINDING) / violated clause (ok-required, guid-expected, capfd-iff-agreed,
            leftover-delivered, no-panic) / drift
"""
import json

import core
from props import hs_framing as hf

CLAUSES = {"no-panic", "ok-required", "guid-expected", "capfd-iff-agreed", "leftover-delivered"}
KEEP = ("id", "var", "cfg", "stream", "rel", "hs_len", "att", "trail_msgs")


def model_check(chk):
    r = core.tlc("mc/MC_SaslClient.tla", "mc/MC_SaslClient.cfg", coverage=True, workers=2, timeout=3000)
    if r.violation or not r.ok:
        raise core.ToolError("SaslClient.tla violates its own invariants (specification error):\n%s" % (r.violation or r.raw_tail)[:3000])
    hf.check_coverage(r, ["MNext"], "MC_SaslClient")
    hf.add_tlc(chk, r)
    with hf._LOCK:
        chk.cov["mc_client_states"] = r.distinct


def classify(chk, mism, lines, origin, seed_info):
    for m in mism:
        obs = json.loads(lines[m["line"] - 1])
        what = m["what"]
        replay = {"origin": origin, "seed_info": seed_info, "observation": {k: obs[k] for k in KEEP},
                  "mismatch": {"what": what, "detail": m.get("detail")}}
        if what == "known":
            for d in m["detail"]["devs"]:
                chk.report("dev:" + d, {"deviation": d, "obs": m["detail"]["obs"]}, replay)
        elif what in CLAUSES:
            d = m["detail"]
            first = d["cmds"][0] if d.get("cmds") else {}
            key = "%s:%s%s" % (what, first.get("k"), ("/" + first.get("g")) if first.get("g") else "")
            chk.report(key, {"clause": what, "obs": d}, replay)
        elif what == "drift":
            with hf._LOCK:
                chk.cov["model_drift"] = chk.cov.get("model_drift", 0) + 1
                if chk.cov["model_drift"] <= 10:
                    core.log("MODEL-DRIFT C17: %s" % json.dumps(m)[:700])
                    chk.notes.append("MODEL-DRIFT: " + json.dumps(m.get("detail"))[:300])


def conformance(chk, obs_path, origin, seed_info, shards):
    out, lines, rs = core.tlc_validate("trace/SaslClientTrace.tla", "trace/SaslClientTrace.cfg", obs_path, shards=shards, timeout=3000)
    for r in rs:
        hf.add_tlc(chk, r)
    with hf._LOCK:
        classify(chk, out["MISMATCH"], lines, origin, seed_info)
    hf.add(chk, "traces_validated_against_impl", len(lines))
    hf.add(chk, "evaluations", len(lines))
    return lines


def run(pid, tier, replay):
    chk = core.Check(pid, "model_checking", tier)
    hf.load_own_known(chk, pid)
    hs = core.build("hs")
    if replay:
        return do_replay(chk, hs, replay)
    quick = chk.quick
    allobs = []

    def enum_part():
        cases = chk.path("cases.ndjson")
        g, n = core.tlc_generate("gen/Gen_SaslClient.tla", "gen/Gen_SaslClient_quick.cfg" if quick else "gen/Gen_SaslClient_thorough.cfg",
                                 cases, timeout=3000, workers=4)
        obs = chk.path("obs_enum.ndjson")
        r = core.run_bin(hs, ["client-enum", cases, obs, chk.work], timeout=3000, check=False)
        if r.returncode != 0:
            raise core.ToolError("client-enum failed (%d): %s" % (r.returncode, r.stderr[-2000:]))
        lines = conformance(chk, obs, "enum", None, 4 if quick else 8)
        with hf._LOCK:
            chk.add_tlc(g)
            chk.add("enumerated_cases", n)
            allobs.extend(lines)

    def rand_part():
        nr = 1500 if quick else 60000
        obs = chk.path("obs_rand.ndjson")
        core.run_bin(hs, ["client-rand", nr, chk.seed, obs], timeout=3000)
        lines = conformance(chk, obs, "rand", {"seed": chk.seed, "n": nr}, 2 if quick else 8)
        with hf._LOCK:
            chk.add("random_streams", len(lines))
            allobs.extend(lines)

    hf.run_parallel([lambda: model_check(chk), enum_part, rand_part])
    chk.cov["exhaustive"] = True
    import hashlib
    seen = set()
    objs = []
    for x in allobs:
        o = json.loads(x)
        if len(o["rel"]) > 1 or o["trail_msgs"] or o["stream"].count(10) > 1:
            seen.add(hashlib.sha1(json.dumps([o["cfg"], o["stream"], o["rel"], o["att"]]).encode()).digest())
        if len(objs) < 4 and o["var"] in ("cut", "unix", "rand") and len(o["stream"]) < 260:
            objs.append(o)
    chk.cov["distinct_nontrivial"] = len(seen)
    chk.cov["rule"] = ("an observation = (fd capability, expected GUID, server byte stream with fd positions, read split); distinct by "
                       "content; non-trivial = more than one line, or split across reads, or messages following the handshake lines")
    for o in objs:
        chk.sample({"cfg": {"canfd": o["cfg"]["canfd"], "expected": bytes(o["cfg"]["expected"]).decode()},
                    "stream": bytes(o["stream"]).decode("latin1"), "rel": o["rel"], "att": o["att"], "outcome": o["outcome"],
                    "guid": bytes(o["guid"]).decode("latin1"), "cap_fd": o["cap_fd"],
                    "delivered": [[len(d["bytes"]), d["fds"]] for d in o["delivered"]]})
    chk.assumptions += [
        "the expected server GUID can only be given through an address (Builder::address(\"unix:path=..,guid=..\")); those cases run "
        "over a real unix socket with the whole reply queued before the client reads (single chunk)",
        "the fd capability is observed as whether Connection::send accepts a message carrying an fd",
        "TLC evaluates Sasl.tla / SaslClient.tla correctly",
    ]
    return chk.finish()


def do_replay(chk, hs, path):
    with open(path) as f:
        rp = json.load(f)["replay"]
    case = chk.path("replay_case.ndjson")
    with open(case, "w") as f:
        f.write(json.dumps(rp["observation"]) + "\n")
    obs = chk.path("replay_obs.ndjson")
    core.run_bin(hs, ["client-raw", case, obs, chk.work])
    conformance(chk, obs, "replay", rp.get("seed_info"), 1)
    o = json.loads(open(obs).readline())
    chk.sample({k: o[k] for k in ("cfg", "rel", "outcome", "cap_fd", "detail")})
    return chk.finish()
