"""C32: a proxy's signal stream yields only the current owner's signals (spec/OwnerTrack.tla).

Pipeline:
  model   <- TLC checks OwnerTrack (bus + socket reader + stream set-up + filter) under all interleavings,
             and checks that the model with the recorded deviation switched on *does* violate the invariants
  cases   <- TLC enumerates every consistent bus history up to L messages x schedules x stream modes (Gen_OwnerTrack)
  observe <- harness/proxy replays every case against the real zbus client over a fake bus (one thread, deterministic)
  decide  <- TLC evaluates spec/trace/OwnerTrackTrace.tla on every observation: property monitor OwnerTrack!Ideal,
             named deviations via OwnerTrack!Sim; one MISMATCH per rejected observation

Also home of the helpers shared with proxy_cache.py (C31) and proxy_names.py (C36).
"""
import json
import os
import subprocess
from concurrent.futures import ThreadPoolExecutor

import core


# --------------------------------------------------------------------------- shared helpers
# validation JVMs live for a few seconds: C1-only compilation starts faster and does not fight for cores
FAST_JVM = {"JAVA_TOOL_OPTIONS": "-XX:TieredStopAtLevel=1"}

def run_sharded(binary, sub, cases_path, obs_path, procs=4):
    """Run `binary sub <cases> <obs>` on `procs` slices of the case file in parallel; concatenate in order."""
    with open(cases_path) as f:
        lines = [x for x in f.read().split("\n") if x.strip()]
    if not lines:
        raise core.ToolError("no cases in %s" % cases_path)
    procs = max(1, min(procs, (len(lines) + 499) // 500))
    per = (len(lines) + procs - 1) // procs
    parts = []
    for i in range(procs):
        chunk = lines[i * per:(i + 1) * per]
        if not chunk:
            continue
        cp, op = "%s.p%d" % (cases_path, i), "%s.p%d" % (obs_path, i)
        with open(cp, "w") as f:
            f.write("\n".join(chunk) + "\n")
        parts.append((cp, op, len(chunk)))

    def one(p):
        r = subprocess.run([binary, sub, p[0], p[1]], capture_output=True, text=True, timeout=3000)
        if r.returncode != 0:
            raise core.ToolError("harness %s %s exited %d:\n%s" % (os.path.basename(binary), sub, r.returncode, r.stderr[-3000:]))
        n = sum(1 for _ in open(p[1]))
        if n != p[2]:
            raise core.ToolError("harness %s wrote %d observations for %d cases" % (sub, n, p[2]))

    with ThreadPoolExecutor(max_workers=len(parts)) as ex:
        list(ex.map(one, parts))
    with open(obs_path, "w") as g:
        for cp, op, _ in parts:
            with open(op) as f:
                g.write(f.read())
            os.unlink(cp)
            os.unlink(op)
    return len(lines)


class Phase:
    """with Phase(chk, "name"): ...  records the wall time of a phase in the evidence (measured, informational)."""

    def __init__(self, chk, name):
        self.chk, self.name = chk, name

    def __enter__(self):
        import time
        self.t = time.time()

    def __exit__(self, *a):
        import time
        self.chk.cov.setdefault("phase_wall_s", {})[self.name] = round(time.time() - self.t, 1)
        return False


def new_check(pid, tier):
    """core.Check plus the entries of known_findings.d/<pid>.json (the assembled known_findings.json may lag behind)."""
    chk = core.Check(pid, "model_checking", tier)
    own = os.path.join(core.VERIF, "known_findings.d", pid + ".json")
    if os.path.exists(own):
        have = {k["id"] for k in chk.known}
        for k in json.load(open(own)).get("findings", []):
            if k.get("property") == pid and k.get("status", "known") == "known" and k["id"] not in have:
                chk.known.append(k)
    return chk


class Cases:
    """Case lookup by id without keeping the parsed file in memory (ids are the 0-based line numbers)."""

    def __init__(self, path):
        self.path = path
        self.offsets = None

    def get(self, cid, default=None):
        if cid is None:
            return default
        if self.offsets is None:
            self.offsets = []
            pos = 0
            with open(self.path, "rb") as f:
                for line in f:
                    self.offsets.append(pos)
                    pos += len(line)
        if not (0 <= cid < len(self.offsets)):
            return default
        with open(self.path, "rb") as f:
            f.seek(self.offsets[cid])
            c = json.loads(f.readline())
        return c if c.get("id") == cid else default


def load_cases(path):
    return Cases(path)


def stats(lines, nontrivial, keyf, counters, sample_at=(0, 0.5, 0.5, 1.0)):
    """One pass over the observation lines: distinct non-trivial count, named counters, a few samples."""
    import hashlib
    n = len(lines)
    want = sorted({min(n - 1, int(f * (n - 1)) + (1 if i == 2 else 0)) for i, f in enumerate(sample_at)}) if n else []
    seen = set()
    cnt = {k: 0 for k in counters}
    samples = []
    for i, x in enumerate(lines):
        o = json.loads(x)
        if nontrivial(o):
            seen.add(hashlib.sha1(keyf(o).encode()).digest())
        for k, f in counters.items():
            cnt[k] += f(o)
        if i in want:
            samples.append(o)
    return len(seen), cnt, samples


def model_check(chk, module, cfg, actions, workers=4, timeout=1500):
    """Exhaustive TLC run; the run is void (tool error) if an action was never taken or TLC found a violation."""
    r = core.tlc(module, cfg, coverage=True, workers=workers, timeout=timeout)
    if r.violation:
        raise core.ToolError("model check %s / %s failed:\n%s" % (module, cfg, r.violation[:3000]))
    for a in actions:
        if r.coverage.get(a, 0) == 0:
            raise core.ToolError("vacuous model check: action %s of %s never taken (%s)" % (a, module, r.coverage))
    chk.add_tlc(r)
    chk.cov.setdefault("model_checks", []).append(
        {"module": module, "cfg": cfg, "distinct_states": r.distinct, "states_generated": r.generated,
         "depth": r.depth, "wall_s": round(r.wall, 1), "action_hits": {a: r.coverage.get(a, 0) for a in actions}})
    return r


def expect_violation(chk, module, cfg, invariant_names, workers=4):
    """The model with a recorded deviation switched on must violate the property (otherwise the deviation
    switch does not model a defect and the known finding would hide nothing real)."""
    r = core.tlc(module, cfg, workers=workers, timeout=900)
    if not r.violation or not any(("Invariant %s is violated" % i) in r.violation for i in invariant_names):
        raise core.ToolError("expected %s / %s to violate one of %s; got:\n%s" % (module, cfg, invariant_names, (r.violation or r.raw_tail)[-1500:]))
    chk.cov.setdefault("deviation_models_violate", []).append({"cfg": cfg, "distinct_states": r.distinct})
    return r


def classify(chk, pid, mism, lines, cases, keyf, tool_clauses=("spec-selfcheck",)):
    for m in mism:
        obs = json.loads(lines[m["line"] - 1])
        if m["what"] in tool_clauses:
            raise core.ToolError("specification self-check failed: %s / %s" % (json.dumps(m)[:800], lines[m["line"] - 1][:800]))
        key = keyf(m, obs)
        chk.report(key, {"clause": m["what"], "detail": m.get("detail"), "explained_by": m.get("explained_by")},
                   {"case": cases.get(obs.get("id")) if cases else obs.get("case"), "observation": obs, "mismatch": m})


# --------------------------------------------------------------------------- C32
ACTIONS = ["BusChange", "Forge", "Emit", "Lookup", "Read", "InitTake", "Subscribe", "Filter"]


def key_owner(m, obs):
    ex = m.get("explained_by") or []
    if ex:
        return "%s:%s" % ("+".join(sorted(ex)), m["what"])      # explained by a named deviation of the spec
    # class of failing input: clause + stream mode + whether an ownership claim (genuine / forged) is in the history
    ks = {e["k"] for e in obs.get("evs", [])}
    return "%s:%s:%s" % (m["what"], obs.get("mode"), "+".join(sorted(ks & {"noc", "forge", "nocother"})) or "plain")


def nontrivial(o):
    ks = [e["k"] for e in o.get("evs", [])]
    return any(k in ("noc", "forge", "nocother") for k in ks)


def validate(chk, pid, obs_path, cases, shards):
    out, lines, rs = core.tlc_validate("trace/OwnerTrackTrace.tla", "trace/OwnerTrackTrace.cfg", obs_path, shards=shards, timeout=3000, env=FAST_JVM,
                                       tags=("MISMATCH", "DRIFT"))
    classify(chk, pid, out["MISMATCH"], lines, cases, key_owner)
    if out["DRIFT"]:
        msg = "MODEL-DRIFT: %d scenario(s) in which the stream set-up finished at a point the client model does not predict (first id %s)" % (
            len(out["DRIFT"]), out["DRIFT"][0].get("id"))
        core.log(msg)
        chk.notes.append(msg)
    return lines


def run(pid, tier, replay):
    chk = new_check(pid, tier)
    binary = core.build("proxy")
    if replay:
        return do_replay(chk, pid, binary, replay, "c32", validate)
    quick = chk.quick
    with Phase(chk, "model_check"):
        model_check(chk, "mc/MC_OwnerTrack.tla", "mc/MC_OwnerTrack.cfg" if quick else "mc/MC_OwnerTrack_thorough.cfg", ACTIONS,
                    workers=4 if quick else 8)
        expect_violation(chk, "mc/MC_OwnerTrack.tla", "mc/MC_OwnerTrack_dev.cfg",
                         ["OnlyOwnersSignals", "AllOwnersSignals", "TrackedIsOwner"], workers=2)
    cases_path = chk.path("cases.ndjson")
    with Phase(chk, "generate"):
        g, n = core.tlc_generate("gen/Gen_OwnerTrack.tla",
                                 "gen/Gen_OwnerTrack_quick.cfg" if quick else "gen/Gen_OwnerTrack_thorough.cfg",
                                 cases_path, timeout=3000, workers=4)
    chk.add_tlc(g)
    obs_path = chk.path("obs.ndjson")
    with Phase(chk, "replay"):
        run_sharded(binary, "c32", cases_path, obs_path, procs=4 if quick else 8)
    cases = load_cases(cases_path)
    with Phase(chk, "validate"):
        lines = validate(chk, pid, obs_path, cases, shards=6 if quick else 14)
    chk.add("enumerated_cases", n)
    chk.cov["exhaustive"] = True
    chk.add("traces_validated_against_impl", len(lines))
    chk.cov["evaluations"] = len(lines)
    dn, cnt, samples = stats(
        lines, nontrivial, lambda o: json.dumps([o.get("mode"), o.get("init"), o.get("evs")]),
        {"yielded_signals": lambda o: len(o.get("yields", [])),
         "histories_with_forged_claim": lambda o: int(any(e["k"] == "forge" for e in o.get("evs", [])))})
    chk.cov["distinct_nontrivial"] = dn
    chk.cov.update(cnt)
    chk.cov["rule"] = ("cases = every consistent bus history of <= L messages (L=4 quick, 5 thorough) with exactly one GetNameOwner reply and a "
                       "later signal, x stream mode (receive_signal always; receive_all_signals for the short histories and those with a signal "
                       "of another member) x schedule (client run after every message, or with the messages around the lookup reply queued "
                       "together); distinct by (mode, initial owner, received history with quiescence points); non-trivial = contains a "
                       "genuine, forged or other-name NameOwnerChanged")
    for o in samples:
        chk.sample({k: o.get(k) for k in ("mode", "init", "evs", "yields")})
    chk.assumptions += [
        "the fake bus (harness/proxy/src/fakebus.rs) delivers bytes in the scripted order; the bus is consistent (lookup reply = owner at that point)",
        "signals are only released once the stream exists (loss between AddMatch reply and local registration is C20/C37's subject)",
        "TLC evaluates OwnerTrack.tla correctly",
    ]
    return chk.finish()


def do_replay(chk, pid, binary, path, sub, validate_fn):
    with open(path) as f:
        rp = json.load(f)
    case = rp["replay"]["case"]
    cp = chk.path("replay_case.ndjson")
    with open(cp, "w") as f:
        f.write(json.dumps(case) + "\n")
    op = chk.path("replay_obs.ndjson")
    core.run_bin(binary, [sub, cp, op])
    lines = validate_fn(chk, pid, op, {case.get("id"): case}, 1)
    chk.add("traces_validated_against_impl", len(lines))
    chk.cov["evaluations"] = len(lines)
    chk.sample(json.loads(lines[0]))
    return chk.finish()
