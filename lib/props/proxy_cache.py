"""C31: a proxy's property cache reflects the received history (spec/PropCache.tla).

Pipeline:
  model   <- TLC checks PropCache (service, socket reader, cache task with its ordered join) under every arrival order
             and interleaving: at quiescence the cache is the fold of the received history
  cases   <- TLC enumerates received histories (GetAll reply + <= N PropertiesChanged signals of 8 kinds, every order)
             x cache mode x schedule (Gen_PropCache); a second family races PropertyChanged::get's refetch against a
             newer signal (Gen_PropCache refetch cases)
  observe <- harness/proxy replays each against a real proxy over a fake bus; records cached_property of every property
             at every quiescent point, get_property, and what the property streams report
  decide  <- TLC evaluates spec/trace/PropCacheTrace.tla on every observation (monitor PropCache!Fold)
"""
import json

import core
from props import proxy_owner as po

ACTIONS = ["SendReply", "SendChange", "Read", "JoinStep", "KeepStep"]


def key_cache(m, obs):
    ex = m.get("explained_by") or []
    if ex:
        return "%s:%s" % ("+".join(sorted(ex)), m["what"])      # explained by a named deviation of the spec
    d = m.get("detail") if isinstance(m.get("detail"), dict) else {}
    # class of failing input: clause + property + cache mode (one replay file per class; the first failing history is kept)
    return "%s:%s:%s" % (m["what"], d.get("prop", ""), obs.get("mode"))


def validate(chk, pid, obs_path, cases, shards):
    out, lines, rs = core.tlc_validate("trace/PropCacheTrace.tla", "trace/PropCacheTrace.cfg", obs_path, shards=shards, timeout=3000, env=po.FAST_JVM)
    po.classify(chk, pid, out["MISMATCH"], lines, cases, key_cache)
    return lines


def nontrivial(o):
    evs = o.get("evs", [])
    rp = [i for i, e in enumerate(evs) if e["k"] == "reply"]
    return bool(rp) and any(e["k"] == "chg" for e in evs[rp[0]:])


def run(pid, tier, replay):
    chk = po.new_check(pid, tier)
    binary = core.build("proxy")
    if replay:
        return po.do_replay(chk, pid, binary, replay, "c31", validate)
    quick = chk.quick
    with po.Phase(chk, "model_check"):
        po.model_check(chk, "mc/MC_PropCache.tla", "mc/MC_PropCache.cfg" if quick else "mc/MC_PropCache_thorough.cfg", ACTIONS,
                       workers=4 if quick else 8)
    cases_path = chk.path("cases.ndjson")
    with po.Phase(chk, "generate"):
        g, n = core.tlc_generate("gen/Gen_PropCache.tla", "gen/Gen_PropCache_quick.cfg" if quick else "gen/Gen_PropCache_thorough.cfg",
                                 cases_path, timeout=3000, workers=4)
    chk.add_tlc(g)
    obs_path = chk.path("obs.ndjson")
    with po.Phase(chk, "replay"):
        po.run_sharded(binary, "c31", cases_path, obs_path, procs=4 if quick else 8)
    cases = po.load_cases(cases_path)
    with po.Phase(chk, "validate"):
        lines = validate(chk, pid, obs_path, cases, shards=6 if quick else 14)
    # second family: PropertyChanged::get's refetch racing newer signals
    cases2_path = chk.path("cases_refetch.ndjson")
    with po.Phase(chk, "refetch_family"):
        g2, n2 = core.tlc_generate("gen/Gen_PropCacheRefetch.tla",
                                   "gen/Gen_PropCacheRefetch_quick.cfg" if quick else "gen/Gen_PropCacheRefetch_thorough.cfg",
                                   cases2_path, timeout=3000, workers=2)
        chk.add_tlc(g2)
        obs2_path = chk.path("obs_refetch.ndjson")
        po.run_sharded(binary, "c31", cases2_path, obs2_path, procs=1)
        lines2 = validate(chk, pid, obs2_path, po.load_cases(cases2_path), shards=1 if quick else 4)
    chk.add("refetch_cases", n2)
    lines = lines + lines2
    n += n2
    chk.add("enumerated_cases", n)
    chk.cov["exhaustive"] = True
    chk.add("traces_validated_against_impl", len(lines))
    chk.cov["evaluations"] = len(lines)
    dn, cnt, samples = po.stats(
        lines, nontrivial, lambda o: json.dumps([o.get("mode"), o.get("evs")]),
        {"cache_observations": lambda o: sum(1 for e in o.get("evs", []) if e["k"] == "obs"),
         "stream_items": lambda o: sum(len(v) for v in o.get("streams", {}).values()),
         "gets_via_bus": lambda o: sum(1 for v in o.get("gets", {}).values() if v.get("via_get"))})
    chk.cov["distinct_nontrivial"] = dn
    chk.cov.update(cnt)
    chk.cov["rule"] = ("cases = every arrival order of one GetAll reply (full; partial snapshot for the short ones) and <= N (3 quick, 4 thorough) "
                       "PropertiesChanged signals of 8 kinds (own/other interface, change/invalidate/both, cached/uncached property, stranger "
                       "sender, other object; position-dependent values) x CacheProperties::{Yes,Lazily} x schedule (client run after every "
                       "message / once at the end / messages around the reply queued together), plus the refetch family (Get reply of "
                       "PropertyChanged::get among <= 3/4 further signals, 2 schedules); distinct by (mode, received history with "
                       "quiescent points); non-trivial = at least one signal is received after the GetAll reply")
    for o in samples:
        chk.sample({k: o.get(k) for k in ("mode", "evs", "streams", "gets")})
    chk.assumptions += [
        "schedules are at message granularity: the cache task has no await point inside the critical sections modelled (init's join step, update_cache)",
        "the service sends a property either in changed_properties or in invalidated_properties of one signal, not both",
        "the fake bus (harness/proxy/src/fakebus.rs) delivers bytes in the scripted order; TLC evaluates PropCache.tla correctly",
    ]
    return chk.finish()
