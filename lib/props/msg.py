"""C11 / C12 / C13: zbus message layout, hostile message bytes, forward compatibility.

Specification: spec/MsgLayout.tla (layout MsgBytes, total parser ParseMsg with the forward-compatibility
rules, tolerant reader).  One pipeline for the three properties:
  cases   <- TLC enumerates spec/gen/Gen_Msg{Build,Mut,Compat}.tla, or the harness draws seeded random ones
  observe <- harness/msg runs the real zbus code on every case, one ndjson line per case
  decide  <- TLC evaluates spec/trace/MsgCheck.tla on every line: one MISMATCH per violated clause
plus the exhaustive self-checks spec/mc/MC_MsgLayout (ParseMsg o MsgBytes = id, alignment, lengths) and
spec/mc/MC_MsgReader (reader invariants; a deviation run must break them = non-vacuity).
"""
import json
import os
import re
import signal
import subprocess
import time
from concurrent.futures import ThreadPoolExecutor

import core

CLAUSES = {
    "C11": {"build-outcome", "hdr-invalid", "hdr-fixed", "hdr-fields", "hdr-bytes", "body-align", "body-bytes",
            "body-len", "unix-fds", "re-outcome", "re-hdr", "re-fields", "re-sig", "re-nfds", "re-body", "own-differs"},
    "C12": {"hostile-panic"},
    "C13": {"single-rejected", "single-header", "conn-delivery"},
}
TOOL_CLAUSES = {"tool-odd-invalid"}
VAL = ("trace/MsgCheck.tla", "trace/MsgCheck.cfg")
# Most TLC runs here last a few seconds: stopping the JIT at C1 halves their CPU cost (measured); long
# (thorough) runs keep the full JIT.
FAST_JVM = {"JAVA_TOOL_OPTIONS": "-XX:TieredStopAtLevel=1"}


def jenv(chk):
    return dict(FAST_JVM) if chk.quick else {}


def load_own_known(chk):
    """known_findings.d/<pid>.json is the source of known_findings.json (assembled by lib/mkmanifest.py);
    read it directly as well so that the check does not depend on the assembly having been re-run."""
    p = os.path.join(core.VERIF, "known_findings.d", chk.pid + ".json")
    if os.path.exists(p):
        have = {k["id"] for k in chk.known}
        for k in json.load(open(p)).get("findings", []):
            if k.get("property") == chk.pid and k.get("status", "known") == "known" and k["id"] not in have:
                chk.known.append(k)


def sig_of(t):
    k = t.get("k", "?")
    if k == "a":
        return "a" + sig_of(t["e"])
    if k == "e":
        return "{" + sig_of(t["key"]) + sig_of(t["val"]) + "}"
    if k == "r":
        return "(" + "".join(sig_of(x) for x in t["f"]) + ")"
    return k


def validate(chk, path, shards=12, tags=("MISMATCH",), min_lines=40):
    """Shape-A validation like core.tlc_validate, with a finer shard size: the lines of MsgCheck are
    expensive (each evaluates ParseMsg on whole messages) and every line is an initial state, which TLC
    computes in one thread -- so parallelism comes from the number of JVMs only."""
    with open(path) as f:
        lines = [x for x in f.read().split("\n") if x.strip()]
    n = len(lines)
    if n == 0:
        raise core.ToolError("no observations in %s" % path)
    shards = max(1, min(shards, n // min_lines or 1))
    per = (n + shards - 1) // shards
    parts = []
    for i in range(shards):
        chunk = lines[i * per:(i + 1) * per]
        if chunk:
            p = "%s.shard%d" % (path, i)
            with open(p, "w") as f:
                f.write("\n".join(chunk) + "\n")
            parts.append((p, i * per, len(chunk)))

    def one(part):
        p, off, cnt = part
        r = core.tlc(VAL[0], VAL[1], env=dict(jenv(chk), TRACE=p), workers=1, timeout=3000, keep_emit_tags=set(tags), heap="2g")
        if r.violation:
            raise core.ToolError("validator MsgCheck failed on %s:\n%s" % (p, r.violation[:3000]))
        if r.distinct != cnt:
            raise core.ToolError("validator MsgCheck consumed %d of %d lines of %s\n%s" % (r.distinct, cnt, p, r.raw_tail[-1500:]))
        for t in tags:
            for rec in r.emits.get(t, []):
                if isinstance(rec, dict) and "line" in rec:
                    rec["line"] += off
        return r

    with ThreadPoolExecutor(max_workers=len(parts)) as ex:
        rs = list(ex.map(one, parts))
    out = {t: [] for t in tags}
    for r in rs:
        chk.add("validator_states", r.distinct)
        for t in tags:
            out[t].extend(r.emits.get(t, []))
    for p, _, _ in parts:
        os.unlink(p)
    return out, lines


def tool_check(mism, lines):
    for m in mism:
        if m["what"] in TOOL_CLAUSES:
            raise core.ToolError("generator / specification inconsistency: %s / %s" % (json.dumps(m)[:600], lines[m["line"] - 1][:600]))


# ------------------------------------------------------------------------------------------ C11
def key_build(m, obs):
    h = obs.get("hdr", {})
    body = "none" if not obs.get("body", {}).get("ts") else ("fds" if obs.get("nfds", 0) or "h" in json.dumps(obs["body"]["ts"]) else "args")
    return "%s:type%s:%s:%s" % (m["what"], h.get("type"), obs.get("via"), body)


def classify_build(chk, mism, lines):
    tool_check(mism, lines)
    for m in mism:
        if m["what"] not in CLAUSES["C11"]:
            continue
        obs = json.loads(lines[m["line"] - 1])
        case = {k: obs.get(k) for k in ("id", "hdr", "body", "le", "bare", "via")}
        chk.report(key_build(m, obs), {"clause": m["what"], "detail": m.get("detail")}, {"kind": "build", "case": case, "mismatch": m})


def nontrivial_build(o):
    return bool(o.get("body", {}).get("ts")) or o.get("hdr", {}).get("flags", 0) != 0 or len(o.get("hdr", {}).get("fields", [])) > 2


def run_c11(chk, binp):
    quick = chk.quick
    # The generator run also checks the specification's own law on every emitted case (INVARIANT Law:
    # ParseMsg o MsgBytes = id, body offset 8-aligned, declared lengths / fd counts = actual, TotalLen).
    cases = chk.path("cases.ndjson")
    g, n = core.tlc_generate("gen/Gen_MsgBuild.tla", "gen/Gen_MsgBuild_%s.cfg" % ("quick" if quick else "thorough"), cases, timeout=3000, env=jenv(chk))
    chk.add_tlc(g)
    chk.cov["mc_selfcheck_cases"] = g.distinct
    core.log("[C11] generated %d cases (law checked) in %.1fs" % (n, g.wall))
    obs = chk.path("obs_enum.ndjson")
    core.run_bin(binp, ["obs-build", cases, obs])
    nr = 500 if quick else 10000
    robs = chk.path("obs_rand.ndjson")
    core.run_bin(binp, ["rand-build", nr, chk.seed, robs])
    allobs = chk.path("obs_all.ndjson")
    with open(allobs, "w") as f:
        f.write(open(obs).read())
        f.write(open(robs).read())
    t0 = time.time()
    out, lines = validate(chk, allobs, shards=8 if quick else 14)
    core.log("[C11] validated %d observations in %.1fs" % (len(lines), time.time() - t0))
    classify_build(chk, out["MISMATCH"], lines)
    chk.add("enumerated_cases", n)
    chk.cov["exhaustive"] = True
    chk.add("traces_validated_against_impl", len(lines))
    chk.add("random_cases", len(lines) - n)
    objs = [json.loads(x) for x in lines]
    chk.cov["evaluations"] = len(objs)
    chk.cov["built_ok"] = sum(1 for o in objs if o.get("outcome") == "ok")
    chk.cov["distinct_nontrivial"] = core.distinct_count(
        [o for o in objs if nontrivial_build(o)], lambda o: json.dumps([o.get("hdr"), o.get("body"), o.get("le"), o.get("bare"), o.get("via")], sort_keys=True))
    chk.cov["rule"] = ("cases = TLC-enumerated (type x subsets of settable fields x flags x byte order x bodies x build route, Gen_MsgBuild) "
                       "plus seeded random headers (random valid names / paths) and bodies (random signatures incl. fds); distinct by "
                       "(header, body, endian, route); non-trivial = has a body, or flags, or more than two header fields")
    chk.cov["with_fds"] = sum(1 for o in objs if o.get("nfds", 0) > 0)
    for o in objs[:2] + objs[-2:]:
        chk.sample({k: o.get(k) for k in ("hdr", "body", "le", "via", "bytes", "nfds")})


# ------------------------------------------------------------------------------------------ C12
def observe_hostile(chk, binp, args_for_start, out, cases_path=None, n_expected=None):
    """Run the hostile observer in a child process; if the child dies (stack overflow / abort inside the
    code under test), record outcome `abort` for the culprit and restart behind it."""
    start = 0
    aborts = 0
    while True:
        r = core.run_bin(binp, args_for_start(start), check=False)
        done = sum(1 for _ in open(out)) if os.path.exists(out) else 0
        if r.returncode == 0:
            return aborts
        if r.returncode > 0 and r.returncode not in (134, 139):
            raise core.ToolError("hostile observer exited %d: %s" % (r.returncode, r.stderr[-2000:]))
        # killed by a signal while working on case number `done`
        cur = out + ".cur"
        if not os.path.exists(cur):
            raise core.ToolError("hostile observer died (%d) without a current-case file" % r.returncode)
        case = json.load(open(cur))
        sig = -r.returncode if r.returncode < 0 else r.returncode - 128
        case.update({"ev": "Hostile", "ctx_le": case.get("ctx_le", True), "diag": False,
                     "calls": {"parse": "abort"}, "panics": [{"call": "process", "msg": "child killed by signal %d (%s)" % (
                         sig, signal.Signals(sig).name if sig in signal.Signals._value2member_map_ else "?")}]})
        with open(out, "a") as f:
            f.write(json.dumps(case) + "\n")
        aborts += 1
        start = done + 1
        if aborts > 200:
            raise core.ToolError("more than 200 aborts in the hostile corpus; giving up")


def site_of(panics):
    msg = panics[0]["msg"] if panics else "?"
    return re.sub(r"\d+", "N", msg.split(":")[0])[:60]


def key_hostile(m):
    d = m["detail"]
    g, fr = d["group"], d["frame"]
    if g == "header":
        # cause is the content of a header field, not the framing: class = the failing expectation
        return "panic:header:%s" % site_of([p for p in d["panics"] if p["call"] in ("header", "header_debug")] or d["panics"])
    if fr in ("empty", "shorter-than-body-offset"):
        return "panic:%s:%s" % (g, fr)
    return "panic:%s:%s:%s" % (g, fr, site_of(d["panics"]))


def classify_hostile(chk, mism, lines, diag):
    for m in mism:
        if m["what"] not in CLAUSES["C12"]:
            continue
        obs = json.loads(lines[m["line"] - 1])
        case = {k: obs.get(k) for k in ("id", "cls", "bytes", "nfds", "ctx_le")}
        chk.report(key_hostile(m), {"clause": "a call on hostile bytes panicked", "detail": m["detail"]},
                   {"kind": "hostile", "case": case, "mismatch": m})
    for d in diag:
        k = "diag_%s" % d["what"].replace("-", "_")
        sub = chk.cov.setdefault(k, {})
        w = d["detail"].get("why") or d["detail"].get("cls") or "?"
        sub[w] = sub.get(w, 0) + 1


def run_c12(chk, binp):
    quick = chk.quick
    cases = chk.path("cases.ndjson")
    g, n = core.tlc_generate("gen/Gen_MsgMut.tla", "gen/Gen_MsgMut_%s.cfg" % ("quick" if quick else "thorough"), cases, timeout=3000, env=jenv(chk))
    chk.add_tlc(g)
    core.log("[C12] generated %d mutations in %.1fs" % (n, g.wall))
    obs = chk.path("obs_mut.ndjson")
    t0 = time.time()
    aborts = observe_hostile(chk, binp, lambda s: ["obs-hostile", cases, obs, s], obs)
    nr = 4000 if quick else 100000
    robs = chk.path("obs_rand.ndjson")
    aborts += observe_hostile(chk, binp, lambda s: ["rand-hostile", nr, chk.seed, robs, s], robs)
    core.log("[C12] observed in %.1fs" % (time.time() - t0))
    allobs = chk.path("obs_all.ndjson")
    with open(allobs, "w") as f:
        f.write(open(obs).read())
        f.write(open(robs).read())
    t0 = time.time()
    out, lines = validate(chk, allobs, shards=8 if quick else 14, tags=("MISMATCH", "DIAG"))
    core.log("[C12] validated %d observations in %.1fs" % (len(lines), time.time() - t0))
    classify_hostile(chk, out["MISMATCH"], lines, out["DIAG"])
    chk.add("enumerated_cases", n)
    chk.add("traces_validated_against_impl", len(lines))
    chk.add("random_cases", len(lines) - n)
    objs = [json.loads(x) for x in lines]
    chk.cov["evaluations"] = len(objs)
    chk.cov["aborts"] = aborts
    chk.cov["accepted_by_impl"] = sum(1 for o in objs if o["calls"].get("parse") == "ok")
    chk.cov["inputs_with_a_panic"] = sum(1 for o in objs if o.get("panics"))
    chk.cov["calls_observed"] = sum(len(o["calls"]) for o in objs)
    chk.cov["distinct_nontrivial"] = core.distinct_count(objs, lambda o: json.dumps([o.get("bytes"), o.get("nfds"), o.get("ctx_le")]))
    by = {}
    for o in objs:
        by[o.get("cls")] = by.get(o.get("cls"), 0) + 1
    chk.cov["by_mutation_class"] = by
    chk.cov["rule"] = ("cases = field-wise mutations of valid messages enumerated by TLC (Gen_MsgMut: every truncation, every byte x 6 values, "
                       "length-field overrides, variant type swaps, invalid names, structural defects, nesting bombs) plus seeded random byte "
                       "strings / multi-mutations of library-built random messages; each input goes through from_bytes and every accessor; "
                       "distinct by (bytes, fds, context endian); every case is a hostile input, so all count as non-trivial")
    for o in objs[:1] + [o for o in objs if o.get("panics")][:2] + objs[-1:]:
        chk.sample({k: o.get(k) for k in ("cls", "bytes", "calls", "panics")})


# ------------------------------------------------------------------------------------------ C13
def classify_compat(chk, mism, lines):
    tool_check(mism, lines)
    for m in mism:
        if m["what"] not in CLAUSES["C13"]:
            continue
        obs = json.loads(lines[m["line"] - 1])
        d = m["detail"]
        devs = d.get("devs", []) if isinstance(d, dict) else []
        where = "single" if m["what"].startswith("single") else "conn"
        if len(devs) == 1:
            key = "%s:%s" % (devs[0], where)          # explained by exactly one named deviation of MsgLayout
        else:
            key = "%s:%s:unexplained" % (m["what"], obs.get("kind"))
        case = {k: obs.get(k) for k in ("id", "kind", "what", "odd", "stream")}
        chk.report(key, {"clause": m["what"], "kind": obs.get("kind"), "detail": d}, {"kind": "compat", "case": case, "mismatch": m})


def run_c13(chk, binp):
    quick = chk.quick
    r = core.tlc("mc/MC_MsgReader.tla", "mc/MC_MsgReader.cfg", timeout=1200, env=jenv(chk))
    if r.violation:
        raise core.ToolError("MC_MsgReader: the reader specification violates its invariants:\n" + r.violation[:2000])
    chk.add_tlc(r)
    acts = {}
    for a in r.emits.get("ACT", []):
        acts[a] = acts.get(a, 0) + 1
    chk.cov["mc_actions"] = acts
    for a in ("Deliver", "Skip", "Stop"):
        if not acts.get(a):
            raise core.ToolError("MC_MsgReader: action %s never taken (vacuous model)" % a)
    # non-vacuity of the invariants: a named deviation must be caught by them
    rd = core.tlc("mc/MC_MsgReader.tla", "mc/MC_MsgReader_dev.cfg", timeout=1200, env=jenv(chk))
    if not rd.violation or "NeverStopsOnTolerated" not in rd.violation:
        raise core.ToolError("MC_MsgReader: the deviation run did not violate NeverStopsOnTolerated (vacuous invariant)")
    chk.cov["mc_deviation_caught"] = True
    core.log("[C13] MC_MsgReader %d states in %.1fs; deviation run %.1fs" % (r.distinct, r.wall, rd.wall))
    cases = chk.path("cases.ndjson")
    g, n = core.tlc_generate("gen/Gen_MsgCompat.tla", "gen/Gen_MsgCompat_%s.cfg" % ("quick" if quick else "thorough"), cases, timeout=3000, env=jenv(chk))
    chk.add_tlc(g)
    core.log("[C13] generated %d streams in %.1fs" % (n, g.wall))
    obs = chk.path("obs.ndjson")
    t0 = time.time()
    core.run_bin(binp, ["obs-compat", cases, obs, 4], timeout=3000)
    core.log("[C13] observed in %.1fs" % (time.time() - t0))
    objs = [json.loads(x) for x in open(obs)]
    for o in objs:
        for cn in o["conns"]:
            if "tool_error" in cn:
                raise core.ToolError("connection harness failed on case %s (%s): %s" % (o["id"], cn["mode"], cn["tool_error"]))
    t0 = time.time()
    out, lines = validate(chk, obs, shards=6 if quick else 14)
    core.log("[C13] validated %d observations in %.1fs" % (len(lines), time.time() - t0))
    classify_compat(chk, out["MISMATCH"], lines)
    chk.add("enumerated_cases", n)
    chk.cov["exhaustive"] = True
    chk.add("traces_validated_against_impl", len(lines))
    chk.cov["evaluations"] = len(objs)
    chk.cov["connection_runs"] = sum(len(o["conns"]) for o in objs)
    chk.cov["unix_socket_runs"] = sum(1 for o in objs for cn in o["conns"] if cn["mode"] == "unix")
    by = {}
    for o in objs:
        by[o["kind"]] = by.get(o["kind"], 0) + 1
    chk.cov["by_kind"] = by
    chk.cov["distinct_nontrivial"] = core.distinct_count([o for o in objs if o["kind"] in ("field", "flag", "type")], lambda o: json.dumps(o["stream"]))
    chk.cov["rule"] = ("cases = one stream per unknown field code 10..255 x 3 payload variants, per unknown flag byte, per unknown type 5..255 "
                       "(+ controls), the odd message between two normal ones; distinct by stream bytes; non-trivial = uses something unknown")
    # diagnostics that are no demand of C13
    for o in objs:
        if o["kind"] in ("type0", "invalid"):
            chk.notes.append("control %s: from_bytes=%s, delivered %d of 3" % (
                o["kind"], o["single"]["outcome"], sum(1 for i in o["conns"][0]["items"] if i["k"] == "msg")))
    for o in [o for o in objs if o["kind"] == "field"][:1] + [o for o in objs if o["kind"] == "flag"][:1] + [o for o in objs if o["kind"] == "type"][:1] + [o for o in objs if o["kind"] == "normal"][:1]:
        chk.sample({"kind": o["kind"], "odd_message": o["stream"][o["odd"] - 1], "single": o["single"].get("outcome"), "conns": o["conns"]})


# ------------------------------------------------------------------------------------------ entry points
LEVELS = {"C11": "model_checking", "C12": "exploration", "C13": "model_checking"}


def run(pid, tier, replay):
    chk = core.Check(pid, LEVELS[pid], tier)
    load_own_known(chk)
    binp = core.build("msg")
    if replay:
        return do_replay(chk, pid, binp, replay)
    {"C11": run_c11, "C12": run_c12, "C13": run_c13}[pid](chk, binp)
    chk.assumptions += [
        "fixed-width numbers are opaque byte tuples in the specification; u32<->bytes conversion (to_be_bytes) in the harness is trusted",
        "the harness's abstraction of zbus::message::Message through its public accessors (harness/msg/src/absmsg.rs) is faithful",
        "TLC evaluates MsgLayout.tla / DBusWire.tla correctly",
    ]
    if pid == "C11":
        chk.assumptions.append("the order of header fields on the wire is implementation-chosen: compared as a set, bytes compared with the "
                               "specification's marshalling in the observed order; the API's body signature is compared modulo zvariant's "
                               "documented identification of `su` with `(su)`")
    if pid == "C12":
        chk.assumptions.append("a panic is observed with catch_unwind in a child process (abort / stack overflow = death of the child); "
                               "allocation size is not measured")
    if pid == "C13":
        chk.assumptions.append("the connection runs use a scripted ReadHalf behind Builder::authenticated_socket (deterministic) and, for a "
                               "share of the cases, a real UnixStream pair with SASL handshake; message type 0 (INVALID) is not demanded to be skipped")
    return chk.finish()


def do_replay(chk, pid, binp, path):
    with open(path) as f:
        rp = json.load(f)["replay"]
    case = rp["case"]
    cf = chk.path("replay_case.ndjson")
    with open(cf, "w") as f:
        f.write(json.dumps(case) + "\n")
    out = chk.path("replay_obs.ndjson")
    kind = rp["kind"]
    if kind == "build":
        core.run_bin(binp, ["obs-build", cf, out])
        res, lines = validate(chk, out, shards=1)
        classify_build(chk, res["MISMATCH"], lines)
    elif kind == "hostile":
        observe_hostile(chk, binp, lambda s: ["obs-hostile", cf, out, s], out)
        res, lines = validate(chk, out, shards=1, tags=("MISMATCH", "DIAG"))
        classify_hostile(chk, res["MISMATCH"], lines, res["DIAG"])
    else:
        core.run_bin(binp, ["obs-compat", cf, out, 1])
        res, lines = validate(chk, out, shards=1)
        classify_compat(chk, res["MISMATCH"], lines)
    chk.add("traces_validated_against_impl", 1)
    chk.cov["evaluations"] = 1
    chk.sample(json.loads(lines[0]))
    return chk.finish()
