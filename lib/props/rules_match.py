"""C21: match rules select exactly the messages the D-Bus match-rule semantics say (spec/MatchSem.tla).

Pipeline (one code path for both directions):
  cases   <- TLC enumerates (rule, message) pairs (spec/gen/Gen_Match.tla: rules with <= k keys x the product of
             the message dimensions those keys look at), or the harness draws random rules with near-miss messages
  observe <- harness/rules builds the rule with MatchRule::builder(), the message with the Message builders and
             calls rule.matches(&msg); one ndjson line per call
  decide  <- TLC evaluates spec/trace/MatchCheck.tla on every line; a verdict MatchSem does not allow prints a
             MISMATCH naming the smallest set of listed deviations that reproduces it ("none" otherwise)
Also holds the helpers shared by the other modules of this group (rules_rulestr, rules_addr, rules_xml, rules_guid).
"""
import json
import os

import core

KNOWN_D = os.path.join(core.VERIF, "known_findings.d")


# ----------------------------------------------------------------------------------------------- shared helpers
def local_known(chk, names, prop=None):
    """known_findings.json is assembled by the lead (lib/mkmanifest.py) from known_findings.d/*.json; until (and
    after) that has happened make sure this group's own files are in effect.  Read-only."""
    prop = prop or chk.pid
    have = {k.get("id") for k in chk.known}
    for n in names:
        p = os.path.join(KNOWN_D, n + ".json")
        if not os.path.exists(p):
            continue
        with open(p) as f:
            for k in json.load(f).get("findings", []):
                if k.get("property") == prop and k.get("status", "known") == "known" and k.get("id") not in have:
                    chk.known.append(k)
                    have.add(k.get("id"))


def build(pkg, features=()):
    """core.build, unless VERIF_BIN_<PKG> names a prebuilt harness binary.  The override exists only for trying hand
    mutations from a private scratch workspace (other agents clean work/alt/ while a long alt build is running); a normal
    run never sets it."""
    p = os.environ.get("VERIF_BIN_" + pkg.upper())
    if p:
        if not os.path.exists(p):
            raise core.ToolError("VERIF_BIN_%s=%s does not exist" % (pkg.upper(), p))
        core.log("[build] %s: using prebuilt binary %s (VERIF_BIN_%s; mutation testing only)" % (pkg, p, pkg.upper()))
        return p
    return core.build(pkg, features=features)


def text(x):
    """Readable form of an abstract value for samples / diagnostics: byte arrays become strings."""
    if isinstance(x, list):
        if x and all(isinstance(i, int) and 0 <= i < 256 for i in x):
            try:
                return bytes(x).decode("utf-8")
            except UnicodeDecodeError:
                return "bytes:" + bytes(x).hex()
        return [text(i) for i in x]
    if isinstance(x, dict):
        return {k: text(v) for k, v in x.items()}
    return x


_T = [None]


def stage(chk, name):
    """Log the wall time of the stage that just ended (stderr only; never part of a verdict)."""
    import time
    now = time.time()
    if _T[0] is not None:
        core.log("[%s] stage %-10s %.1fs" % (chk.pid, name, now - _T[0]))
    _T[0] = now


def mc(chk, module, cfg, timeout=1500):
    """Exhaustive TLC run of a law module; a violated law is a broken specification = tool failure."""
    r = core.tlc(module, cfg, timeout=timeout)
    if r.violation or not r.ok:
        raise core.ToolError("model check of %s failed (the specification's own laws):\n%s" % (module, (r.violation or r.raw_tail)[-3000:]))
    if r.distinct == 0:
        raise core.ToolError("model check of %s explored no state" % module)
    chk.add_tlc(r)
    chk.add("mc_states", r.distinct)
    return r


def validate(chk, module, path, shards=10, tags=("MISMATCH",), timeout=3000):
    out, lines, rs = core.tlc_validate("trace/%s.tla" % module, "trace/%s.cfg" % module, path, shards=shards, tags=tags,
                                       timeout=timeout)
    chk.add("traces_validated_against_impl", len(lines))
    return out, lines


def tool_clauses(mism, lines, clauses=("not-built", "harness-self", "harness-input")):
    for m in mism:
        if m["what"] in clauses:
            raise core.ToolError("harness could not drive the case (%s): %s / %s" % (
                m["what"], json.dumps(m)[:600], lines[m["line"] - 1][:800]))


# ----------------------------------------------------------------------------------------------- C21
def rule_keys(rule):
    ks = [k for k in rule if k not in ("args", "arg_paths")]
    ks += ["arg%d" % a["i"] for a in rule.get("args", [])]
    ks += ["arg%dpath" % a["i"] for a in rule.get("arg_paths", [])]
    return sorted(ks)


def classify(chk, mism, lines):
    tool_clauses(mism, lines)
    for m in mism:
        obs = json.loads(lines[m["line"] - 1])
        rp = {"observation": obs, "mismatch": m}
        what = {"clause": m["what"], "detail": m.get("detail"), "rule": text(obs.get("rule")), "msg": text(obs.get("msg"))}
        if m["what"] == "match":
            devs = m["detail"]["devs"]
            if devs == ["none"]:
                chk.report("match:unexplained:" + "+".join(rule_keys(obs["rule"])), what, rp)
            else:
                # the observation needs all of these deviations at once: each must be a listed finding
                for d in devs:
                    chk.report("match:" + d, what, rp)
        else:
            chk.report("%s:%s" % (m["what"], "+".join(rule_keys(obs["rule"]))), what, rp)


def nontrivial(o):
    r = o["rule"]
    return len(rule_keys(r)) >= 2 or "path_namespace" in r or r.get("args") or r.get("arg_paths") or "arg0ns" in r


def run(pid, tier, replay):
    chk = core.Check(pid, "model_checking", tier)
    local_known(chk, ["C21"])
    stage(chk, "start")
    binp = build("rules")
    if replay:
        return do_replay(chk, binp, replay)
    quick = chk.quick
    # One TLC run over the (rule, message) universe: checks the specification's own laws (MC_MatchSem: monotonicity,
    # namespace order, symmetry, scope of the deviations) and emits every pair as a case (spec -> impl).
    stage(chk, "build")
    cases = chk.path("cases.ndjson")
    g, n = core.tlc_generate("mc/MC_MatchSem.tla", "mc/MC_MatchSem_gen_%s.cfg" % ("quick" if quick else "thorough"),
                             cases, timeout=3000)
    if n == 0:
        raise core.ToolError("MC_MatchSem emitted no case")
    chk.add_tlc(g)
    chk.add("mc_states", g.distinct)
    stage(chk, "tlc-gen")
    obs = chk.path("obs.ndjson")
    core.run_bin(binp, ["match-obs", cases, obs])
    if sum(1 for _ in open(obs)) != n:
        raise core.ToolError("harness answered fewer lines than the %d cases" % n)
    # impl -> spec: seeded random rules with near-miss messages, validated together with the enumerated pairs
    nr = 4000 if quick else 120000
    robs = chk.path("obs_rand.ndjson")
    core.run_bin(binp, ["match-rand", nr, chk.seed, robs])
    with open(obs, "a") as f, open(robs) as g2:
        for line in g2:
            f.write(line)
    stage(chk, "observe")
    out, lines = validate(chk, "MatchCheck", obs, shards=6 if quick else 14)
    stage(chk, "tlc-check")
    classify(chk, out["MISMATCH"], lines)
    chk.add("enumerated_cases", n)
    chk.add("random_cases", len(lines) - n)
    chk.cov["exhaustive"] = True
    total = lines
    objs = [json.loads(x) for x in total[:400000]]
    chk.cov["evaluations"] = len(total)
    chk.cov["matched"] = sum(1 for o in objs if o.get("got") == "true")
    chk.cov["not_matched"] = sum(1 for o in objs if o.get("got") == "false")
    if chk.cov["matched"] == 0 or chk.cov["not_matched"] == 0:
        raise core.ToolError("vacuous run: every observed verdict was the same")
    chk.cov["distinct_nontrivial"] = core.distinct_count([o for o in objs if nontrivial(o)],
                                                         lambda o: json.dumps([o["rule"], o["msg"]], sort_keys=True))
    chk.cov["rule"] = ("cases = TLC-enumerated (rule, message) pairs (Gen_Match: rules with <= %d keys [the largest size over reduced value sets] x all values of the message "
                       "dimensions the keys look at) plus seeded random rules with near-miss messages; distinct by (rule, message); "
                       "non-trivial = rule has >= 2 keys or a path_namespace / argN / argNpath / arg0namespace key" % (2 if quick else 3))
    for o in objs[:2] + objs[-3:]:
        chk.sample({"rule": text(o["rule"]), "msg": text(o["msg"]), "got": o.get("got")})
    chk.assumptions += [
        "rules are those constructible through MatchRule::builder() (argNpath values are valid object paths; a rule "
        "destination is a unique name); messages are those the Message builders produce",
        "a STRING first argument textually inside an arg0namespace but not a valid bus name is left undecided (the D-Bus "
        "specification and the reference bus disagree); both verdicts are accepted for it",
        "the harness's rule / message construction from the abstract model (harness/rules/src/matchrule.rs) is faithful",
        "TLC evaluates MatchSem.tla correctly",
    ]
    return chk.finish()


def do_replay(chk, binp, path):
    with open(path) as f:
        rp = json.load(f)
    obs = rp["replay"]["observation"]
    case = chk.path("replay_case.ndjson")
    with open(case, "w") as f:
        f.write(json.dumps({"id": 0, "rule": obs["rule"], "msg": obs["msg"], "single": obs.get("single", False)}) + "\n")
    out_p = chk.path("replay_obs.ndjson")
    core.run_bin(binp, ["match-obs", case, out_p])
    out, lines = validate(chk, "MatchCheck", out_p, shards=1)
    classify(chk, out["MISMATCH"], lines)
    chk.cov["evaluations"] = 1
    o = json.loads(lines[0])
    chk.sample({"rule": text(o["rule"]), "msg": text(o["msg"]), "got": o.get("got")})
    return chk.finish()
