"""C18 / C19 / C20 / C38: the connection core, against spec/Conn.tla (system model) and
spec/trace/ConnMon.tla (property monitor over recorded traces).

  1. TLC model-checks Conn.tla exhaustively for small constants (invariants + liveness), plus the
     deviation / mutant configurations that must FAIL (non-vacuity: the invariants can see the bug).
  2. spec -> impl: TLC -simulate walks behaviours of Conn.tla (Gen_ConnSched) which are mapped to
     harness steps and replayed on a real zbus connection over the scripted transport; fixed
     adversarial schedules (the counterexamples of the mutated models) are always included; seeded
     random schedules add volume.
  3. impl -> spec: every recorded trace is consumed by TLC (ConnMon.tla); a violated clause is a
     VIOLATION of the property that owns the clause.
"""
import json
import random

import core

OWNER = {"c18": "C18", "c19": "C19", "c20": "C20", "c38": "C38"}
MEMBER_OF_RULE = {"A": "A", "B": "B"}
SIG_MEMBER = {101: "A", 102: "B", 103: "A"}


def map_hist(hist, sid):
    """Conn.tla behaviour -> harness steps (DESIGN.md appendix B)."""
    steps = []
    started = set()
    subbed = set()
    noreply = {3}
    nstray = 0
    for a, x in hist:
        if a == "CStart":
            if x not in started:
                started.add(x)
                steps.append(["call", x, x in noreply])
        elif a in ("CLock", "CPoll", "CDrop"):
            steps.append(["pollc", x])
        elif a == "CWrite":
            steps += [["permit", 4096], ["pollc", x]]
        elif a == "Reply":
            steps.append(["reply", x])
        elif a == "Error":
            steps.append(["error", x])
        elif a == "Stray":
            nstray += 1
            steps.append(["stray", nstray, nstray % 2 == 0])
        elif a == "Signal":
            steps.append(["signal", SIG_MEMBER.get(x, "A"), x])
        elif a == "Fault":
            steps.append(["eof" if sid % 2 == 0 else "readerr"])
        elif a == "Tick":
            steps.append(["tick"])
        elif a == "Sub":
            if x not in subbed:
                subbed.add(x)
                steps += [["sub", x, "B" if x == 3 else "A", 1], ["polls", x]]
        elif a == "SPoll":
            steps += [["credit", x, 1], ["polls", x]]
        elif a == "SDrop":
            steps.append(["dropstream", x])
    steps += [["gate", False], ["allcredit"], ["quiesce"]]
    return steps


def adversarial():
    """Schedules that the counterexamples of the mutated models use; always run."""
    out = []
    # reply released while the caller is still inside send(); reader runs before the caller resumes
    out.append({"kind": "calls", "write_gated": True, "yield_after_write": True, "steps": [
        ["call", 1, False], ["pollc", 1], ["permit", 4096], ["pollc", 1], ["reply", 1], ["ticks"], ["pollc", 1], ["gate", False], ["quiesce"]]})
    out.append({"kind": "calls", "yield_after_write": True, "steps": [
        ["call", 1, False], ["call", 2, False], ["pollc", 1], ["reply", 1], ["ticks"], ["pollc", 2], ["error", 2], ["ticks"], ["pollc", 2], ["pollc", 1], ["quiesce"]]})
    out.append({"kind": "calls", "write_gated": True, "steps": [
        ["call", 1, False], ["call", 2, False], ["pollc", 1], ["pollc", 2], ["permit", 50], ["pollc", 1], ["permit", 4096], ["pollc", 1],
        ["reply", 1], ["ticks"], ["permit", 4096], ["pollc", 2], ["error", 2], ["ticks"], ["pollc", 2], ["pollc", 1], ["gate", False], ["quiesce"]]})
    # replies in reverse order, strays in between, errors
    out.append({"kind": "calls", "steps": [["call", c, False] for c in (1, 2, 3, 4)] + [["pollc", c] for c in (1, 2, 3, 4)] +
                [["stray", 1, False], ["reply", 4], ["error", 3], ["stray", 2, True], ["reply", 2], ["reply", 1], ["quiesce"]]})
    # more outstanding calls than the method-return queue (8) holds; replies arrive before anyone polls
    n = 11
    out.append({"kind": "calls", "steps": [["call", c, False] for c in range(1, n + 1)] + [["pollc", c] for c in range(1, n + 1)] +
                [["reply", c] for c in range(n, 0, -1)] + [["ticks"], ["quiesce"]]})
    # no-reply call completes without any reply; a later reply-like stray must not disturb anyone
    out.append({"kind": "calls", "steps": [["call", 1, True], ["call", 2, False], ["pollc", 1], ["pollc", 2], ["quiesce"], ["stray", 1, False], ["reply", 2], ["quiesce"]]})
    # timeout: reply never comes
    out.append({"kind": "calls", "timeout_ms": 40, "steps": [["call", 1, False], ["call", 2, False], ["pollc", 1], ["pollc", 2], ["reply", 2], ["quiesce"],
                                                              ["sleep", 120], ["quiesce"]]})
    # task switch after every partial write; fds with the first chunk
    out.append({"kind": "sends", "log_io": True, "write_gated": True, "steps": [["send", 0, 3, True], ["send", 1, 3, False], ["send", 2, 2, True]] +
                sum([[["permit", k], ["poll", 0], ["poll", 1], ["poll", 2]] for k in (1, 3, 16, 15, 17, 40, 1, 200, 7, 9, 64, 5, 300, 2, 33)], []) +
                [["gate", False], ["quiesce"]]})
    # consumer never polled until the queue is full: the reader stalls, then everything drains in order
    out.append({"kind": "streams", "steps": [["sub", 1, "A", 1], ["sub", 2, "A", 1], ["sub", 3, "B", 1], ["quiesce"]] +
                [["signal", "A" if i % 3 else "B", 100 + i] for i in range(1, 9)] + [["ticks"], ["credit", 1, 2], ["quiesce"], ["credit", 3, 1], ["quiesce"],
                                                                                    ["allcredit"], ["quiesce"]]})
    # drop immediately after create; equal rules share a subscription until the last is dropped
    out.append({"kind": "streams", "steps": [["sub", 1, "A", 2], ["sub", 2, "A", 2], ["quiesce"], ["dropstream", 1], ["signal", "A", 1], ["quiesce"],
                                             ["sub", 3, "A", 2], ["dropstream", 3], ["signal", "A", 2], ["allcredit"], ["quiesce"], ["dropstream", 2], ["signal", "A", 3], ["quiesce"]]})
    # release one of two equal streams through AsyncDrop: the other must go on
    out.append({"kind": "streams", "steps": [["sub", 1, "A", 2], ["sub", 2, "A", 2], ["sub", 3, "B", 2], ["quiesce"], ["asyncdrop", 1], ["quiesce"], ["signal", "A", 1], ["signal", "B", 2],
                                             ["allcredit"], ["quiesce"], ["asyncdrop", 2], ["quiesce"], ["signal", "A", 3], ["signal", "B", 4], ["quiesce"]]})
    # clone, then drop the clone: the original must go on
    out.append({"kind": "streams", "steps": [["sub", 1, "A", 2], ["quiesce"], ["clone", 1, 2], ["signal", "A", 1], ["allcredit"], ["quiesce"],
                                             ["dropstream", 2], ["quiesce"], ["signal", "A", 2], ["quiesce"]]})
    # unfiltered stream sees everything in order
    # a later subscriber to an equal rule asks for a smaller queue while the earlier stream has a backlog
    out.append({"kind": "streams", "steps": [["sub", 1, "A", 4], ["quiesce"], ["signal", "A", 1], ["signal", "A", 2], ["signal", "A", 3], ["quiesce"],
                                             ["sub", 2, "A", 1], ["quiesce"], ["signal", "A", 4], ["quiesce"], ["allcredit"], ["quiesce"]]})
    out.append({"kind": "streams", "steps": [["sub", 1, "A", 4], ["sub", 2, "B", 4], ["quiesce"], ["signal", "A", 1], ["signal", "B", 2], ["signal", "A", 3],
                                             ["signal", "A", 4], ["quiesce"], ["sub", 3, "A", 2], ["sub", 4, "B", 1], ["quiesce"], ["allcredit"], ["quiesce"]]})
    out.append({"kind": "streams", "steps": [["sub", 1, None, 4], ["sub", 2, "A", 4], ["quiesce"], ["signal", "A", 1], ["signal", "B", 2], ["stray", 1, False], ["signal", "A", 3],
                                             ["allcredit"], ["quiesce"]]})
    # faults: between messages, mid-message (header / body), with calls pending, then new work fails promptly
    for kind in ("eof", "readerr"):
        out.append({"kind": "faults", "steps": [["call", 1, False], ["call", 2, False], ["sub", 1, "A", 2], ["sub", 2, None, 4], ["pollc", 1], ["pollc", 2], ["quiesce"],
                                                ["signal", "A", 1], ["reply", 1], ["signal", "A", 2], [kind], ["allcredit"], ["quiesce"],
                                                ["call", 3, False], ["sub", 3, "A", 1], ["quiesce"]]})
        # later subscriptions: to a rule that had subscribers, to rules nobody had subscribed to, to everything
        out.append({"kind": "faults", "steps": [["sub", 1, "A", 2], ["quiesce"], ["signal", "A", 1], [kind], ["allcredit"], ["quiesce"],
                                                ["sub", 2, "Z", 2], ["sub", 3, None, 2], ["sub", 4, "A", 2], ["allcredit"], ["quiesce"], ["call", 1, False], ["quiesce"]]})
        for k in (1, 8, 15, 16, 17, 40, 90, 130):
            out.append({"kind": "faults", "steps": [["call", 1, False], ["sub", 1, "A", 2], ["pollc", 1], ["quiesce"], ["signal", "A", 1],
                                                    ["partial", "A", 2, k, "eof" if kind == "eof" else "err"], ["allcredit"], ["quiesce"], ["call", 2, True], ["quiesce"]]})
    out.append({"kind": "faults", "steps": [["call", 1, False], ["sub", 1, "A", 2], ["pollc", 1], ["quiesce"], ["writeerr"], ["call", 2, False], ["quiesce"],
                                            ["eof"], ["allcredit"], ["quiesce"]]})
    return out


def random_scenario(rnd, kind):
    steps = []
    if kind == "calls":
        n = rnd.randint(2, 6)
        nore = {c for c in range(1, n + 1) if rnd.random() < 0.2}
        gated = rnd.random() < 0.5
        started, answered = [], set()
        for _ in range(rnd.randint(15, 60)):
            r = rnd.random()
            if r < 0.2 and len(started) < n:
                c = len(started) + 1
                started.append(c)
                steps.append(["call", c, c in nore])
            elif r < 0.5 and started:
                steps.append(["pollc", rnd.choice(started)])
            elif r < 0.6:
                steps.append(["tick"])
            elif r < 0.8 and started:
                c = rnd.choice(started)
                if c not in answered and c not in nore:
                    answered.add(c)
                    steps.append([rnd.choice(["reply", "reply", "error"]), c] + ([rnd.randint(1, 60)] if rnd.random() < 0.3 else []))
            elif r < 0.87:
                steps.append(["stray", rnd.randint(1, 50), rnd.random() < 0.5])
            elif r < 0.95 and gated:
                steps.append(["permit", rnd.choice([1, 5, 16, 40, 4096])])
            else:
                steps.append(["ticks"])
        steps += [["gate", False], ["quiesce"]]
        return {"kind": "calls", "write_gated": gated, "yield_after_write": rnd.random() < 0.6, "steps": steps}
    if kind == "streams":
        live, nxt, sid = [], 1, 0
        for _ in range(rnd.randint(15, 50)):
            r = rnd.random()
            if r < 0.2 and nxt <= 6:
                steps.append(["sub", nxt, rnd.choice(["A", "A", "B", None]), rnd.choice([1, 2, 4])])
                live.append(nxt)
                nxt += 1
            elif r < 0.5:
                sid += 1
                steps.append(["signal", rnd.choice(["A", "A", "B", "C"]), sid] + ([rnd.randint(1, 100)] if rnd.random() < 0.3 else []))
            elif r < 0.65 and live:
                steps.append(["credit", rnd.choice(live), rnd.randint(1, 3)])
            elif r < 0.72 and live:
                s = rnd.choice(live)
                live.remove(s)
                steps.append([rnd.choice(["dropstream", "dropstream", "asyncdrop"]), s])
            elif r < 0.9:
                steps.append(rnd.choice([["tick"], ["ticks"], ["quiesce"]]))
            else:
                steps.append(["stray", rnd.randint(1, 9), False])
        steps += [["allcredit"], ["quiesce"]]
        return {"kind": "streams", "steps": steps}
    if kind == "sends":
        nt = rnd.randint(2, 5)
        steps = [["send", t, rnd.randint(1, 4), rnd.random() < 0.4] for t in range(nt)]
        for _ in range(rnd.randint(10, 60)):
            steps.append(["permit", rnd.choice([1, 2, 7, 15, 16, 17, 31, 64, 100, 4096])])
            for t in rnd.sample(range(nt), nt):
                if rnd.random() < 0.8:
                    steps.append(["poll", t])
        steps += [["gate", False], ["quiesce"]]
        return {"kind": "sends", "log_io": True, "write_gated": True, "steps": steps}
    # faults
    steps = [["call", 1, False], ["call", 2, rnd.random() < 0.3], ["sub", 1, "A", rnd.choice([1, 2])], ["sub", 2, rnd.choice(["A", "B", None]), 2]]
    pre = [["pollc", 1], ["pollc", 2], ["tick"], ["signal", "A", 1], ["signal", "B", 2], ["reply", 1], ["signal", "A", 3], ["credit", 1, 1], ["ticks"], ["stray", 1, False]]
    rnd.shuffle(pre)
    cut = rnd.randint(0, len(pre))
    steps += pre[:cut]
    f = rnd.random()
    if f < 0.3:
        steps.append(["eof"])
    elif f < 0.6:
        steps.append(["readerr"])
    elif f < 0.9:
        steps.append(["partial", "A", 9, rnd.randint(1, 150), rnd.choice(["eof", "err"])])
    else:
        steps += [["writeerr"], ["eof"]]
    steps += pre[cut:] if rnd.random() < 0.3 else []
    steps += [["allcredit"], ["quiesce"], ["call", 3, False], ["sub", 3, rnd.choice(["A", "B", "Z", None]), 1], ["allcredit"], ["quiesce"]]
    return {"kind": "faults", "steps": steps}


KINDS_FOR = {"C18": ["sends"], "C19": ["calls"], "C20": ["streams"], "C38": ["faults", "calls", "streams"]}


def model_check(chk, pid):
    cfgs = {
        "C19": [("mc/MC_Conn_calls_q.cfg" if chk.quick else "mc/MC_Conn_calls.cfg", True), ("mc/MC_Conn_calls_mutant.cfg", False)],
        "C20": [("mc/MC_Conn_streams_q.cfg" if chk.quick else "mc/MC_Conn_streams.cfg", True), ("mc/MC_Conn_clone_dev.cfg", False)],
        "C38": [("mc/MC_Conn_calls_q.cfg", True), ("mc/MC_Conn_streams_q.cfg" if chk.quick else "mc/MC_Conn_streams.cfg", True)],
        "C18": [("mc/MC_Writer.cfg", True), ("mc/MC_Writer_mutant.cfg", False)],
    }[pid]
    for cfg, must_hold in cfgs:
        mod = "mc/MC_Writer.tla" if "Writer" in cfg else "mc/MC_Conn.tla"
        r = core.tlc(mod, cfg, workers=6, coverage=must_hold, timeout=3000)
        if must_hold:
            if r.violation:
                raise core.ToolError("%s: the specification violates its own properties:\n%s" % (cfg, r.violation[:2000]))
            dead = [a for a, n in r.coverage.items() if n == 0 and a not in ("CLateSub", "Next", "Init", "Spec", "WNext", "WInit") and not (("calls" in cfg) and a.startswith("S")) and
                    not (("calls" in cfg) and a == "PeerSignal") and not (("streams" in cfg) and a in ("CStart", "CLock", "CWrite", "CPoll", "CDrop", "CStartAfterFault", "PeerAnswer", "PeerStray")) and
                    not ("_q" in cfg and a == "PeerStray")]
            if dead:
                raise core.ToolError("%s: actions never taken (vacuous model): %s" % (cfg, dead))
            chk.add_tlc(r)
        else:
            # the mutated / deviating model must be caught by the same invariants (non-vacuity)
            if not r.violation or "Invariant" not in r.violation:
                raise core.ToolError("%s: the mutated model was NOT rejected - the invariants are vacuous" % cfg)
            chk.cov.setdefault("mutant_models_rejected", []).append(cfg)


def drift_check(chk, bus, scen):
    """Advisory (DESIGN 1.3): are the recorded call traces behaviours of the *system model* Conn.tla?  Observable events are
    bound to Conn's actions, internal steps are silent (spec/trace/TraceConn.tla).  A trace the model cannot explain is
    MODEL-DRIFT: printed, recorded in the evidence, never a verdict."""
    import os
    from concurrent.futures import ThreadPoolExecutor
    sel = [s for s in scen if s["kind"] == "calls" and not s.get("timeout_ms") and
           all(st[0] not in ("cancelcall", "sub", "signal", "partial", "writeerr") for st in s["steps"]) and
           sum(1 for st in s["steps"] if st[0] == "call") <= 4]
    sel = sel[: (12 if chk.quick else 400)]
    if not sel:
        return
    # Callers / NoReply are constants of Conn.tla: only scenarios with the same callers and the same no-reply callers
    # share a TLC run
    buckets = {}
    for s in sel:
        sig = (tuple(sorted({st[1] for st in s["steps"] if st[0] == "call"})),
               tuple(sorted({st[1] for st in s["steps"] if st[0] == "call" and st[2]})))
        buckets.setdefault(sig, []).append(s)
    groups = []
    for b in buckets.values():
        groups += [b[i:i + 4] for i in range(0, len(b), 4)]
    base = open(os.path.join(core.SPEC, "trace", "TraceConn.cfg")).read()

    def one(gi):
        g = groups[gi]
        sp = chk.path("drift_sc%d.ndjson" % gi)
        with open(sp, "w") as f:
            for s in g:
                f.write(json.dumps(s) + "\n")
        tp = chk.path("drift_tr%d.ndjson" % gi)
        core.run_bin(bus, ["run", sp, tp], timeout=600)
        evs = [json.loads(x) for x in open(tp)]
        callers = sorted({e["c"] for e in evs if e["ev"] == "CallStart"})
        nore = sorted({e["c"] for e in evs if e["ev"] == "CallStart" and e["noreply"]})
        cfg = base.replace("Callers <- TC_Callers", "Callers = {%s}" % ", ".join(map(str, callers)))
        cfg = cfg.replace("NoReply <- TC_NoReply", "NoReply = {%s}" % ", ".join(map(str, nore))) + "POSTCONDITION Post\n"
        cp = chk.path("TraceConn_%d.cfg" % gi)
        open(cp, "w").write(cfg)
        try:
            r = core.tlc("trace/TraceConn.tla", cp, env={"TRACE": tp}, workers=1, deque=True, heap="3g", timeout=(60 if chk.quick else 300))
        except core.ToolError as e:      # advisory check: a timeout is reported, never fatal
            return None, len(evs), 0, {"tool": str(e)[:200]}, 0
        ok = bool(r.violation) and "NotYetAccepted is violated" in r.violation
        pre = (r.emits.get("PREFIX") or [{"explained": 0}])[0]["explained"]
        return ok, len(evs), pre, (evs[pre] if pre < len(evs) else None), r.distinct

    with ThreadPoolExecutor(max_workers=4) as ex:
        res = list(ex.map(one, range(len(groups))))
    acc = sum(len(groups[i]) for i, r in enumerate(res) if r[0])
    chk.cov["system_model_traces_explained"] = acc
    chk.cov["system_model_traces_checked"] = len(sel)
    chk.add("states", sum(r[4] for r in res))
    chk.cov["system_model_groups_timed_out"] = sum(1 for r in res if r[0] is None)
    for i, (ok, n, pre, ev, _) in enumerate(res):
        if ok is None:
            chk.notes.append("system-model trace validation of group %d gave up: %s" % (i, ev))
        elif not ok:
            msg = "MODEL-DRIFT: Conn.tla explains only %d of %d events of trace group %d; first unexplained event: %s" % (pre, n, i, json.dumps(ev)[:300])
            core.log(msg)
            chk.notes.append(msg)


def run(pid, tier, replay):
    chk = core.Check(pid, "fault_enumeration" if pid == "C38" else "model_checking", tier)
    bus = core.build("bus")
    scen = []
    if replay:
        rp = json.load(open(replay))
        scen = [rp["replay"]["scenario"]]
    else:
        model_check(chk, pid)
        kinds = KINDS_FOR[pid]
        for s in adversarial():
            if s["kind"] in kinds:
                scen.append(dict(s, origin="adversarial"))
        if pid in ("C19", "C20", "C38"):
            sched = chk.path("sched.ndjson")
            nsim = 150 if chk.quick else 3000
            g, n = core.tlc_generate("gen/MC_Gen_ConnSched.tla", "gen/Gen_ConnSched.cfg", sched, simulate=nsim, depth=45, seed=chk.seed, workers=1, timeout=1500)
            chk.cov["tlc_behaviours_replayed"] = n
            for i, line in enumerate(open(sched)):
                h = json.loads(line)["hist"]
                has_fault = any(a == "Fault" for a, _ in h)
                if pid == "C38" and not has_fault:
                    continue
                if pid in ("C19", "C20") and has_fault:
                    continue
                scen.append({"kind": "tlc", "write_gated": True, "yield_after_write": True, "steps": map_hist(h, i), "origin": "tlc-simulate"})
        rnd = random.Random(chk.seed * 7919 + sum(map(ord, pid)))
        nrand = 250 if chk.quick else (3000 if pid == "C18" else 6000)   # writer scenarios log many more events each
        for _ in range(nrand):
            scen.append(dict(random_scenario(rnd, rnd.choice(kinds)), origin="random"))
    for i, s in enumerate(scen):
        s["id"] = i + 1
    sc_path = chk.path("scenarios.ndjson")
    with open(sc_path, "w") as f:
        for s in scen:
            f.write(json.dumps(s) + "\n")
    trace = chk.path("trace.ndjson")
    core.run_bin(bus, ["run", sc_path, trace], timeout=3000)
    mism, lines, rs = core.tlc_validate_seq("trace/ConnMon.tla", "trace/ConnMon.cfg", trace, shards=12, timeout=3000)
    by_id = {s["id"]: s for s in scen}
    ev_by_scn = {}
    for ln in lines:
        o = json.loads(ln)
        ev_by_scn.setdefault(o["scn"], []).append(o)
    for m in mism["MISMATCH"]:
        what = m["what"]
        owner = OWNER.get(what.split("-")[0], "C38" if what == "panic" else None)
        if owner != pid and not (what == "panic"):
            continue
        scn = m["id"]
        evs = ev_by_scn.get(scn, [])
        key = what
        if what in ("c20-stream-ended-while-subscribed", "c20-missing-messages") and any(e["ev"] == "StreamCloned" for e in evs) and any(e["ev"] == "StreamDrop" for e in evs):
            key = what + ":after-dropping-a-clone-or-its-original"
        chk.report(key, {"clause": what, "detail": m.get("detail"), "origin": by_id.get(scn, {}).get("origin")},
                   {"scenario": by_id.get(scn), "mismatch": m, "trace": evs[:400]})
    if pid == "C19" and not replay:
        drift_check(chk, bus, scen)
    chk.add("traces_validated_against_impl", len(scen))
    chk.cov["evaluations"] = len(scen)
    chk.cov["events_validated"] = len(lines)
    chk.cov["distinct_nontrivial"] = len({json.dumps(s["steps"]) for s in scen if len(s["steps"]) > 5})
    chk.cov["rule"] = ("scenario = tasks + scheduler steps on a real zbus p2p connection over the scripted transport; sources: fixed adversarial "
                       "schedules, behaviours of Conn.tla from TLC -simulate mapped to steps, seeded random schedules; distinct by step list; "
                       "non-trivial = more than 5 steps")
    chk.cov["scenario_sources"] = {o: sum(1 for s in scen if s.get("origin") == o) for o in ("adversarial", "tlc-simulate", "random")}
    if pid == "C38":
        chk.cov["faults_injected"] = sum(1 for ln in lines if '"ev":"Fault"' in ln)
    for s in scen[:2] + scen[-2:]:
        chk.sample({"kind": s["kind"], "origin": s.get("origin"), "steps": s["steps"][:40]})
    chk.assumptions += ["the harness drives zbus through its public API on one thread; zbus's own tasks run only when the executor is ticked",
                        "timeouts use real timers (40 ms); after a 120 ms sleep the callers are polled once more, so the deadline is seen whatever the reactor thread does",
                        "verdicts come from the property monitor (ConnMon.tla) over observable events only"]
    return chk.finish()
