"""C35: every supported feature combination builds (spec/Features.tla, gen/Gen_Features.tla, trace/FeatCheck.tla).

The specification models Cargo's resolver-2 feature resolution over the workspace metadata extracted at run time
(lib/featmeta.py); TLC enumerates downstream selections, resolves each, predicts coherence of the cfg couplings and
collapses selections into classes with identical unit tables.  Conformance: for class representatives a downstream
crate is generated under work/C35/<n>/ and (a) `cargo tree` gives cargo's own unit table, (b) `cargo check --offline`
gives the build verdict; TLC (FeatCheck) decides every record.  The compile verdict is cargo's.
"""
import json
import os
import queue
import random
import re
import shutil
import subprocess
import threading
import time

import core
import featmeta

TEMPLATE = os.path.join(core.HARNESS, "feat")
OFFLINE_PAT = re.compile(r"failed to select a version|no matching package|can't be downloaded|offline|failed to download|"
                         r"unable to update registry|failed to get `|attempting to make an HTTP request", re.I)
PARALLEL_CHECK = 4
PARALLEL_TREE = 6


# --------------------------------------------------------------------------- selections, classes
def canon_sel(sel):
    return sorted(({"to": e["to"], "feats": sorted(e["feats"]), "defaults": bool(e["defaults"])} for e in sel),
                  key=lambda e: (e["to"], e["feats"], e["defaults"]))


def canon_units(units):
    return sorted(({"p": u["p"], "d": u["d"], "fs": sorted(u["fs"])} for u in units), key=lambda u: (u["p"], u["d"]))


def label(sel):
    return "+".join("%s%s[%s]" % (e["to"], "" if e["defaults"] else "(no-default)", ",".join(e["feats"])) for e in canon_sel(sel))


def sel_weight(sel):
    s = canon_sel(sel)
    return (len(s), sum(len(e["feats"]) for e in s), json.dumps(s))


def group_classes(cases):
    """classes of selections with identical unit tables; representative = smallest selection."""
    by = {}
    for c in cases:
        c["sel"] = canon_sel(c["sel"])
        c["units"] = canon_units(c["units"])
        by.setdefault(json.dumps(c["units"]), []).append(c)
    classes = []
    for k in sorted(by):
        members = sorted(by[k], key=lambda c: sel_weight(c["sel"]))
        rep = dict(members[0])
        rep["members"] = len(members)
        classes.append(rep)
    classes.sort(key=lambda c: sel_weight(c["sel"]))
    for i, c in enumerate(classes):
        c["cls"] = i
    return classes


def heavy(c):
    return sum(1 for u in c["units"] if u["p"] in ("zbus", "zbus_xmlgen") and u["d"] == "target")


def choose(classes, quick, seed):
    """Which class representatives get a `cargo check` (deterministic given the seed)."""
    rnd = random.Random(seed * 7919 + 35)
    caps = {"incoh": 4, "touch": 9, "unsup": 1, "other": 8} if quick else {"incoh": 16, "touch": 30, "unsup": 2, "other": 40}
    groups = {"incoh": [], "touch": [], "unsup": [], "other": []}
    for c in classes:
        g = "incoh" if not c["coherent"] else "unsup" if not c["supported"] else "touch" if c["touches"] else "other"
        groups[g].append(c)
    chosen = []
    for g in ("incoh", "touch", "unsup"):
        xs = groups[g]
        if len(xs) > caps[g]:
            # the smallest selections always, the rest seeded
            keep = xs[:caps[g] // 2]
            rest = xs[caps[g] // 2:]
            keep += rnd.sample(rest, caps[g] - len(keep))
            xs = keep
        chosen += xs
    # others: stratified over the root package sets, seeded
    strata = {}
    for c in groups["other"]:
        strata.setdefault("+".join(sorted({e["to"] for e in c["sel"]})), []).append(c)
    keys = sorted(strata)
    rnd.shuffle(keys)
    for k in keys:
        rnd.shuffle(strata[k])
    picked = []
    while len(picked) < caps["other"] and any(strata[k] for k in keys):
        for k in keys:
            if strata[k] and len(picked) < caps["other"]:
                picked.append(strata[k].pop())
    chosen += picked
    return sorted(chosen, key=lambda c: c["cls"])


# --------------------------------------------------------------------------- generated downstream crates
def write_crate(d, sel, repo, meta):
    dirs = {p["name"]: p["dir"] for p in meta["packages"]}
    os.makedirs(os.path.join(d, "src"), exist_ok=True)
    os.makedirs(os.path.join(d, ".cargo"), exist_ok=True)
    deps = []
    uses = []
    for e in canon_sel(sel):
        deps.append('%s = { path = "%s", default-features = %s, features = [%s] }' % (
            e["to"], dirs[e["to"]], "true" if e["defaults"] else "false", ", ".join('"%s"' % f for f in e["feats"])))
        uses.append("pub use %s as _;" % e["to"].replace("-", "_"))
    with open(os.path.join(TEMPLATE, "Cargo.toml.in")) as f:
        toml = f.read().replace("@DEPS@", "\n".join(deps))
    with open(os.path.join(TEMPLATE, "lib.rs.in")) as f:
        lib = f.read().replace("@USES@", "\n".join(uses))
    for path, data in ((os.path.join(d, "Cargo.toml"), toml), (os.path.join(d, "src", "lib.rs"), lib)):
        with open(path, "w") as f:
            f.write(data)
    shutil.copy(os.path.join(TEMPLATE, "config.toml.in"), os.path.join(d, ".cargo", "config.toml"))
    lock = os.path.join(repo, "Cargo.lock")
    if os.path.exists(lock):
        shutil.copy(lock, os.path.join(d, "Cargo.lock"))


def cargo_env(target_dir=None):
    e = dict(os.environ, CARGO_NET_OFFLINE="true", CARGO_TERM_COLOR="never")
    for k in ("RUSTFLAGS", "CARGO_ENCODED_RUSTFLAGS", "CARGO_BUILD_RUSTFLAGS", "CARGO_TARGET_DIR", "CARGO_BUILD_TARGET"):
        e.pop(k, None)
    if target_dir:
        e["CARGO_TARGET_DIR"] = target_dir
    return e


_TREE_LINE = re.compile(r"^(?P<name>[A-Za-z0-9_\-]+) v\S+(?P<pm> \(proc-macro\))?(?: \((?P<path>[^)]*)\))?\|(?P<fs>.*)$")


def parse_tree(text, ws_names):
    """`cargo tree --no-dedupe --target <host> -e normal,build -f '{p}|{f}'` -> unit table of the workspace packages.
    The domain of a node follows from its path from the root: below a proc-macro, or below a [build-dependencies]
    header, it is a host unit; otherwise it has the domain of its parent (the root is a target unit)."""
    units = {}
    stack = []  # (depth, domain, in_workspace)
    hdr = {}  # depth of children -> dependency kind announced by a header line
    for raw in text.splitlines():
        m = re.match(r"^([\u2502\u251c\u2514\u2500 |`+\\-]*)(.*)$", raw)
        indent, body = m.group(1), m.group(2)
        depth = len(indent) // 4
        if not body:
            continue
        if body.startswith("["):
            for k in [k for k in hdr if k > depth + 1]:
                del hdr[k]
            hdr[depth + 1] = "build" if body.startswith("[build-dependencies]") else "other"
            continue
        for k in [k for k in hdr if k > depth]:
            del hdr[k]
        while stack and stack[-1][0] >= depth:
            stack.pop()
        via_build = hdr.get(depth) == "build"
        lm = _TREE_LINE.match(body.replace(" (*)", ""))
        if not stack:
            stack.append((depth, "target", True))  # the downstream crate itself
            continue
        pdepth, pdom, pws = stack[-1]
        if not lm:
            stack.append((depth, pdom, False))
            continue
        name = lm.group("name")
        dom = "host" if (lm.group("pm") or via_build) else pdom
        ws = pws and name in ws_names and lm.group("path") is not None
        if ws:
            fs = sorted(x for x in lm.group("fs").split(",") if x)
            units.setdefault((name, dom), set()).add(tuple(fs))
        stack.append((depth, dom, ws))
    out = []
    for (p, d), variants in sorted(units.items()):
        for fs in sorted(variants):
            out.append({"p": p, "d": d, "fs": list(fs)})
    return out


def first_error(stderr):
    lines = stderr.splitlines()
    for i, x in enumerate(lines):
        if re.match(r"^error(\[E\d+\])?:", x):
            loc = ""
            for y in lines[i + 1:i + 4]:
                if "-->" in y:
                    loc = " @ " + y.split("-->", 1)[1].strip()
                    break
            return (x + loc)[:300]
    return (lines[-1] if lines else "")[:300]


def is_offline_failure(stderr):
    if "could not compile" in stderr:
        return False
    return bool(OFFLINE_PAT.search(stderr))


def run_tree(d, host):
    r = subprocess.run(["cargo", "tree", "--offline", "--target", host, "-e", "normal,build", "--no-dedupe", "-f", "{p}|{f}"],
                       cwd=d, env=cargo_env(), capture_output=True, text=True, timeout=3600)
    return r


def run_check(d, target_dir, jobs=4):
    r = subprocess.run(["cargo", "check", "--offline", "-q", "-j", str(jobs)], cwd=d, env=cargo_env(target_dir),
                       capture_output=True, text=True, timeout=7200)
    return r


def tree_stamp(meta):
    """A stamp of the sources under test (manifests + *.rs of the workspace packages): a verdict is only taken from a
    build during which the tree did not change (other jobs may be rewriting a shared checkout)."""
    h = []
    roots = sorted({p["dir"] for p in meta["packages"]})
    top = os.path.join(meta["repo"], "Cargo.toml")
    files = [top] if os.path.exists(top) else []
    for r in roots:
        for dp, dns, fns in os.walk(r):
            dns[:] = sorted(x for x in dns if x not in ("target", ".git"))
            files += [os.path.join(dp, fn) for fn in sorted(fns) if fn.endswith(".rs") or fn == "Cargo.toml"]
    for f in files:
        try:
            st = os.stat(f)
            h.append((f, st.st_mtime_ns, st.st_size))
        except OSError:
            h.append((f, 0, -1))
    return hash(tuple(h))


def parallel(items, fn, n):
    """run fn(worker_index, item) over items with n worker threads (shared queue); returns results by position."""
    q = queue.Queue()
    for i, it in enumerate(items):
        q.put((i, it))
    res = [None] * len(items)
    errs = []

    def work(k):
        while True:
            try:
                i, it = q.get_nowait()
            except queue.Empty:
                return
            try:
                res[i] = fn(k, it)
            except Exception as ex:  # tool failure: reported after the pool drains
                errs.append(ex)

    ts = [threading.Thread(target=work, args=(k,)) for k in range(max(1, min(n, len(items))))]
    for t in ts:
        t.start()
    for t in ts:
        t.join()
    if errs:
        raise core.ToolError("cargo invocation failed: %r" % errs[0])
    return res


# --------------------------------------------------------------------------- the check
def run(pid, tier, replay):
    chk = core.Check(pid, "exploration", tier)
    # the findings of this property are read from known_findings.d directly as well (the assembled
    # known_findings.json may not have been regenerated yet)
    own = os.path.join(core.VERIF, "known_findings.d", pid + ".json")
    if os.path.exists(own):
        chk.known = [k for k in json.load(open(own)).get("findings", [])
                     if k.get("property") == pid and k.get("status", "known") == "known"]
    repo = featmeta.repo_path()
    host = featmeta.host_triple()
    meta = featmeta.extract(repo)
    ws_names = {p["name"] for p in meta["packages"]}
    with open(chk.path("featmeta.json"), "w") as f:
        json.dump(meta, f, indent=1)
    try:
        return _run(chk, repo, host, meta, ws_names, replay)
    finally:
        # disk is limited: the compile caches never outlive the run
        for x in os.listdir(chk.work):
            if x.startswith("target-"):
                shutil.rmtree(os.path.join(chk.work, x), ignore_errors=True)


def _run(chk, repo, host, meta, ws_names, replay):
    t0 = time.time()
    if replay:
        rp = json.load(open(replay))["replay"]
        classes = [{"cls": 0, "sel": canon_sel(rp["selection"]), "members": 1}]
        to_check = classes
        to_tree = classes
        n_sel = 1
    else:
        # 1. the resolver state machine itself, exhaustively on the synthetic workspace (all rule orders)
        mc = core.tlc("mc/MC_Features.tla", "mc/MC_Features.cfg", workers=4, coverage=True, timeout=1800)
        if mc.violation:
            raise core.ToolError("MC_Features: the resolver model violates its own invariants:\n" + mc.violation)
        if mc.coverage.get("Step", 0) == 0:
            raise core.ToolError("MC_Features: action Step never taken (vacuous)")
        chk.add_tlc(mc)
        if not chk.quick:
            # contrast: with host and target unified (resolver 1) the pair that the split breaks is coherent
            mc1 = core.tlc("mc/MC_Features.tla", "mc/MC_Features_r1.cfg", workers=4, timeout=1800)
            if mc1.violation:
                raise core.ToolError("MC_Features (resolver 1): the resolver model violates its own invariants:\n" + mc1.violation)
            chk.add_tlc(mc1)
        # 2. the configuration space of the real workspace
        root = featmeta.write_root_module(chk.path("FeatGen.tla"), "Gen_Features", meta)
        sels = chk.path("selections.ndjson")
        g, n_sel = core.tlc_generate(root, "gen/Gen_Features_%s.cfg" % chk.tier, sels, workers=4, timeout=3000)
        chk.add_tlc(g)
        cases = [json.loads(x) for x in open(sels)]
        classes = group_classes(cases)
        tlc_classes = {json.dumps(canon_units(c["units"])) for c in g.emits.get("CLASS", [])}
        if len(tlc_classes) != len(classes):
            raise core.ToolError("class count: TLC collapsed the selections into %d classes, the glue into %d" % (len(tlc_classes), len(classes)))
        if not any(len(c["sel"]) > 1 for c in classes):
            raise core.ToolError("no multi-crate downstream selection was generated (package names changed?)")
        to_check = choose(classes, chk.quick, chk.seed)
        tree_cap = len(classes) if chk.quick else 300
        rest = [c for c in classes if c not in to_check]
        random.Random(chk.seed * 31 + 5).shuffle(rest)
        to_tree = sorted(to_check + rest[:max(0, tree_cap - len(to_check))], key=lambda c: c["cls"])
        core.log("[%s] %d selections -> %d classes; cargo tree on %d, cargo check on %d (%.0fs so far)" % (
            chk.pid, n_sel, len(classes), len(to_tree), len(to_check), time.time() - t0))

    # 3. cargo's own resolution for the class representatives
    check_ids = {c["cls"] for c in to_check}

    def crate_dir(k, c, purpose):
        if c["cls"] in check_ids:
            return chk.path(str(c["cls"]))
        return chk.path("%s-%d" % (purpose, k))

    def tree_one(k, c):
        d = crate_dir(k, c, "tree")
        write_crate(d, c["sel"], repo, meta)
        r = run_tree(d, host)
        if r.returncode != 0:
            if is_offline_failure(r.stderr):
                return {"offline": first_error(r.stderr)}
            raise core.ToolError("cargo tree failed for %s:\n%s" % (label(c["sel"]), r.stderr[-2000:]))
        return {"tree": parse_tree(r.stdout, ws_names)}

    trees = parallel(to_tree, tree_one, PARALLEL_TREE)
    tree_by = {c["cls"]: t for c, t in zip(to_tree, trees)}

    # 4. the build verdict: heavy representatives first, up to 4 at a time, one target dir per worker
    order = sorted(to_check, key=lambda c: (-heavy(c) if "units" in c and c["coherent"] and c["supported"] else 0,
                                            -sum(len(u["fs"]) for u in c.get("units", [])), c["cls"]))

    def check_one(k, c, jobs=4):
        t = tree_by.get(c["cls"], {})
        if "offline" in t:
            return {"status": "offline", "err": t["offline"]}
        d = chk.path(str(c["cls"]))
        write_crate(d, c["sel"], repo, meta)
        t1 = time.time()
        for attempt in range(3):
            before = tree_stamp(meta)
            r = run_check(d, chk.path("target-%d" % k), jobs)
            if tree_stamp(meta) == before:
                break
            core.log("[%s]   the tree under test changed while #%d was being built: building it again" % (chk.pid, c["cls"]))
        else:
            raise core.ToolError("the tree under test (%s) keeps changing during the run; no verdict taken" % repo)
        core.log("[%s]   cargo check #%d %s -> %s (%.0fs)" % (chk.pid, c["cls"], label(c["sel"])[:90], "ok" if r.returncode == 0 else "FAIL", time.time() - t1))
        if r.returncode == 0:
            return {"status": "ok", "err": ""}
        if is_offline_failure(r.stderr):
            return {"status": "offline", "err": first_error(r.stderr)}
        if "could not compile" not in r.stderr and not re.search(r"^error", r.stderr, re.M):
            raise core.ToolError("cargo check died without a compile error for %s:\n%s" % (label(c["sel"]), r.stderr[-2000:]))
        with open(os.path.join(d, "cargo-check.stderr"), "w") as f:
            f.write(r.stderr)
        return {"status": "fail", "err": first_error(r.stderr)}

    verdict_by = {}
    if len(order) > PARALLEL_CHECK:
        # warm-up: the heaviest representative is built alone, then its compile cache (third-party crates) seeds the
        # other workers' target dirs, so the common dependencies are compiled once instead of once per worker
        verdict_by[order[0]["cls"]] = check_one(0, order[0], jobs=8)
        for k in range(1, PARALLEL_CHECK):
            subprocess.run(["cp", "-a", chk.path("target-0"), chk.path("target-%d" % k)], check=False)
        order = order[1:]
    verdicts = parallel(order, check_one, PARALLEL_CHECK)
    verdict_by.update({c["cls"]: v for c, v in zip(order, verdicts)})

    # 5. TLC decides every record
    obs = chk.path("obs.ndjson")
    recs = []
    for c in sorted(to_tree, key=lambda c: c["cls"]):
        rec = {"id": c["cls"], "sel": c["sel"], "label": label(c["sel"]), "members": c.get("members", 1),
               "cargo": verdict_by.get(c["cls"], {"status": "not-run", "err": ""})}
        if "units" in c:
            rec["units"] = c["units"]
            rec["predicted_coherent"] = c["coherent"]
            rec["declared_supported"] = c["supported"]
        t = tree_by.get(c["cls"], {})
        if "tree" in t:
            rec["tree"] = t["tree"]
        elif "offline" in t and rec["cargo"]["status"] == "not-run":
            rec["cargo"] = {"status": "offline", "err": t["offline"]}
        recs.append(rec)
    with open(obs, "w") as f:
        for r in recs:
            f.write(json.dumps(r) + "\n")
    vroot = featmeta.write_root_module(chk.path("FeatChk.tla"), "FeatCheck", meta)
    out, lines, results = core.tlc_validate(vroot, "trace/FeatCheck.cfg", obs, shards=4, timeout=1800,
                                            tags=("MISMATCH", "DRIFT", "NOTE"))
    for r in results:
        chk.add_tlc(r)
    for m in out["MISMATCH"]:
        rec = json.loads(lines[m["line"] - 1])
        if m["what"] == "spec-selfcheck":
            raise core.ToolError("Gen_Features and FeatCheck disagree on %s: %s" % (rec["label"], json.dumps(m["detail"])[:800]))
        d = m["detail"]
        if d["coupling"] == "unexplained":
            key = "c35-build-fails:unexplained:%s" % rec["label"]
        else:
            # class of the failure: which coupling is broken, in which domain, and which side has the feature off
            key = "c35-build-fails:%s:%s:%s-off" % (d["coupling"], d["dom"], d["lacks"])
        chk.report(key, {"clause": "the configuration builds", "selection": rec["label"], "cargo_error": d["err"],
                         "explained_by": d["coupling"], "domain": d["dom"], "side_without_feature": d["lacks"]},
                   {"selection": rec["sel"], "observation": rec})
    drift = 0
    for m in out["DRIFT"]:
        rec = json.loads(lines[m["line"] - 1])
        drift += 1
        msg = "MODEL-DRIFT property=%s %s for %s: %s" % (chk.pid, m["what"], rec["label"], json.dumps(m["detail"])[:600])
        core.log(msg)
        if len(chk.notes) < 12:
            chk.notes.append(msg[:400])
    offline = [json.loads(lines[m["line"] - 1])["label"] for m in out["NOTE"]]

    # evidence
    ran = [r for r in recs if r["cargo"]["status"] in ("ok", "fail")]
    chk.add("traces_validated_against_impl", len(recs))
    chk.cov["selections_enumerated"] = n_sel
    chk.cov["classes"] = len(classes)
    chk.cov["classes_resolution_compared_with_cargo_tree"] = sum(1 for r in recs if "tree" in r)
    chk.cov["classes_built"] = len(ran)
    chk.cov["builds_ok"] = sum(1 for r in ran if r["cargo"]["status"] == "ok")
    chk.cov["builds_failed"] = sum(1 for r in ran if r["cargo"]["status"] == "fail")
    chk.cov["unbuildable_offline"] = len(offline)
    chk.cov["model_drift"] = drift
    chk.cov["evaluations"] = len(ran) + chk.cov["classes_resolution_compared_with_cargo_tree"]
    chk.cov["distinct_nontrivial"] = sum(1 for r in ran if len(r["sel"]) > 1 or any(e["feats"] or not e["defaults"] for e in r["sel"]))
    chk.cov["exhaustive"] = False
    chk.cov["rule"] = ("configuration = a downstream crate's dependency selection on workspace crates (tier %s: each crate alone with no / each single / "
                       "all features%s, default-features=false variants, and the multi-crate rows of Gen_Features!Combos); TLC resolves each with the "
                       "resolver-2 model and collapses selections with identical <package, host|target> feature tables into classes; evaluation = one class "
                       "representative whose unit table is compared with `cargo tree` and/or that is built with `cargo check --offline`; built: all classes "
                       "that break or touch a cfg coupling (capped) + seeded others; non-trivial = built with >=2 crates, a feature, or default-features=false"
                       ) % (chk.tier, "" if chk.quick else ", every feature subset of size <= 3")
    for r in [x for x in ran if x["cargo"]["status"] == "fail"][:2] + [x for x in ran if x["cargo"]["status"] == "ok"][:3]:
        chk.sample({"selection": r["label"], "unit_features": {"%s@%s" % (u["p"], u["d"]): ",".join(f for f in u["fs"] if not f.startswith("dep:"))
                                      for u in r.get("units", r.get("tree", []))},
                    "predicted_coherent": r.get("predicted_coherent", ""), "declared_supported": r.get("declared_supported", ""), "cargo_ok": r["cargo"]["status"] == "ok", "first_error": r["cargo"]["err"]})
    if offline:
        chk.notes.append("unbuildable offline (not a violation): " + "; ".join(offline[:10]))
    chk.assumptions += ["whether source compiles is cargo's verdict; the specification supplies the configuration space, the classes and the explanation of a failure",
                        "the cfg couplings and declared requirements are the tables ZbusCouplings / ZbusRequires in spec/Features.tla",
                        "host platform only (%s); dev-dependencies, tests, examples and benches are not built" % host,
                        "classes not built in this run are covered only by the comparison of the resolution with cargo tree"]
    return chk.finish()
