"""C04: decoding untrusted bytes never crashes (exploration level).

The TLA+ specification contributes (a) the corpus: TLC-enumerated valid encodings and their single-byte
mutations (Gen_DBusMut), GVariant encodings of TLC-enumerated values (Gen_GVariant), nestings at the depth
limits with reference encodings (Gen_Depths), deep-signature families and variants nested by data up to 200 000 deep;
(b) the outcome domain
(spec/trace/FuzzCheck.tla).  Crash / abort / allocation observation is harness code (DESIGN.md 1.2).
"""
import json
import os
import subprocess

import core

BUILDS = [(), ("gvariant",), ("option-as-array",), ("gvariant", "option-as-array")]


def deep_sig_corpus(path):
    """Signatures most likely to hit recursion: what a 255-byte signature field can carry, plus a few longer."""
    out = []
    for n in (31, 32, 33, 64, 128, 200, 254):
        for sig in ("a" * n + "y", "(" * n + "y" + ")" * n, ("a(" * (n // 2)) + "y" + (")" * (n // 2)), "a{y" * (n // 3) + "v" + "}" * (n // 3)):
            for fmt in ("dbus", "gvariant"):
                out.append({"fmt": fmt, "sig": sig, "bytes": [0] * 16, "pos": 0, "le": True, "nfds": 0})
                # a variant carrying that signature
                hdr = [len(sig) & 0xff] + [ord(c) for c in sig] + [0]
                out.append({"fmt": fmt, "sig": "v", "bytes": hdr + [0] * 24, "pos": 0, "le": True, "nfds": 0})
                out.append({"fmt": fmt, "sig": "v", "bytes": [0] * 8 + [0] + [ord(c) for c in sig], "pos": 0, "le": True, "nfds": 0})
    for sig in ("a" * 2000 + "y", "(" * 2000 + "y" + ")" * 2000, "v" * 300, "m" * 200 + "y"):
        out.append({"fmt": "dbus", "sig": sig, "bytes": [0] * 32, "pos": 0, "le": True, "nfds": 0})
    # nesting by *data*: variants are the only container whose depth the (<= 255 byte) signature does not bound; N nested
    # variants around one byte, far beyond any stack (DBusWire!Marshal / GVariantWire!GvMarshal of v(v(...v(y)...)), written
    # out by formula because TLC cannot hold a 200 000-deep value): D-Bus = N x [1 'v' 0] + [1 'y' 0 7]; GVariant = [7 0 'y'] +
    # N x [0 'v'] (child bytes, a zero byte, the child's signature)
    for n in (65, 1000, 20000, 200000):
        out.append({"fmt": "dbus", "sig": "v", "bytes": [1, 118, 0] * n + [1, 121, 0, 7], "pos": 0, "le": True, "nfds": 0})
        out.append({"fmt": "gvariant", "sig": "v", "bytes": [7, 0, 121] + [0, 118] * n, "pos": 0, "le": True, "nfds": 0})
    # the listed finding C04-dynamic-value-amplification, exercised on every run: 97 one-byte elements of a 31-deep
    # structure type (GVariant variant = child bytes, 0, signature)
    deep = "a" + "(" * 31 + "y" + ")" * 31
    out.append({"fmt": "gvariant", "sig": "v", "bytes": [7] * 97 + [0] + [ord(c) for c in deep], "pos": 0, "le": True, "nfds": 0})
    with open(path, "w") as f:
        for o in out:
            f.write(json.dumps(o) + "\n")
    return len(out)


def drive(chk, binary, corpus, out, reps, tag):
    """Run fuzz-work in child processes; a child that dies marks the case it was on as outcome 'abort'."""
    n = sum(1 for _ in open(corpus))
    start = 0
    prog = out + ".prog"
    if os.path.exists(out):
        os.unlink(out)
    aborts = 0
    while start < n:
        r = subprocess.run([binary, "fuzz-work", corpus, out, str(chk.seed), str(reps), str(start), prog],
                           capture_output=True, text=True, timeout=7200)
        st = open(prog).read().strip() if os.path.exists(prog) else "0"
        if st == "done" and r.returncode == 0:
            break
        idx = int(st) if st.isdigit() else start
        line = open(corpus).read().split("\n")[idx]
        case = json.loads(line)
        with open(out, "a") as f:
            f.write(json.dumps({"ev": "Fuzz", "id": idx, "fmt": case.get("fmt", "dbus"), "sig": case.get("sig", ""),
                                "len": len(case["bytes"]), "calls": 0, "bad": [], "max_alloc_peak": 0, "outcome": "abort",
                                "rc": r.returncode, "stderr": r.stderr[-300:], "case": case, "build": tag}) + "\n")
        aborts += 1
        if aborts > 50:
            raise core.ToolError("too many aborts in fuzz run (%s)" % tag)
        start = idx + 1
    return n


def run(pid, tier, replay):
    chk = core.Check(pid, "exploration", tier)
    if replay:
        rp = json.load(open(replay))
        b = core.build("wire", features=tuple(rp["replay"].get("build", ())))
        case = chk.path("one.json")
        json.dump(rp["replay"]["call"], open(case, "w"))
        r = subprocess.run([b, "fuzz-one", case], capture_output=True, text=True)
        outs = json.loads(r.stdout or "[]") if r.returncode == 0 else []
        call = rp["replay"]["call"]
        bound = 2097152 + 256 * (len(call.get("bytes") or []) + len(call.get("sig") or ""))
        ok = r.returncode == 0 and all(x["outcome"] in ("ok", "err") and x.get("alloc_peak", 0) <= bound for x in outs)
        if not ok:
            chk.report(rp["key"], "replay still fails (rc=%d, peak allocation %d, bound %d)" % (
                r.returncode, max([x.get("alloc_peak", 0) for x in outs] or [0]), bound), rp["replay"])
        chk.cov.update({"evaluations": 1, "distinct_nontrivial": 2, "rule": "replay of one stored call"})
        chk.sample(rp["replay"]["call"])
        return chk.finish()
    quick = chk.quick
    # corpus from the specification
    dmut = chk.path("dbus_mut.ndjson")
    g, n1 = core.tlc_generate("gen/Gen_DBusMut.tla", "gen/Gen_DBusMut_quick.cfg" if quick else "gen/Gen_DBusMut_thorough.cfg", dmut, timeout=3000)
    chk.add_tlc(g)
    gvc = chk.path("gv_cases.ndjson")
    g, n2 = core.tlc_generate("gen/Gen_GVariant.tla", "gen/Gen_GVariant_quick.cfg" if quick else "gen/Gen_GVariant_thorough.cfg", gvc, timeout=3000)
    chk.add_tlc(g)
    dpc = chk.path("depth_cases.ndjson")
    g, n3 = core.tlc_generate("gen/Gen_Depths.tla", "gen/Gen_Depths_quick.cfg", dpc, timeout=3000)
    chk.add_tlc(g)
    # thin the D-Bus mutation corpus in the quick tier (every k-th line), keep everything thorough
    lines = open(dmut).read().splitlines()
    step = 12 if quick else 4
    dsel = [x for i, x in enumerate(lines) if (i + chk.seed) % step == 0]
    dcorp = chk.path("corpus_dbus.ndjson")
    with open(dcorp, "w") as f:
        for x in dsel:
            o = json.loads(x)
            o["fmt"] = "dbus"
            f.write(json.dumps(o) + "\n")
        for x in open(dpc):
            o = json.loads(x)
            f.write(json.dumps({"fmt": "dbus", "sig": "v", "bytes": o["dbus"], "pos": 0, "le": True, "nfds": 0}) + "\n")
    nsig = deep_sig_corpus(chk.path("corpus_sigs.ndjson"))
    reps = 12 if quick else 30
    total_calls = 0
    entries = 0
    allobs = []
    for feats in BUILDS:
        tag = "+".join(feats) or "default"
        b = core.build("wire", features=feats)
        corpora = [dcorp, chk.path("corpus_sigs.ndjson")]
        if "gvariant" in feats:
            # GVariant corpus: zvariant's own encodings of the TLC-enumerated values
            gobs = chk.path("gv_obs_%s.ndjson" % tag)
            core.run_bin(b, ["obs-enc", gvc, gobs])
            gcorp = chk.path("corpus_gv_%s.ndjson" % tag)
            with open(gcorp, "w") as f:
                for i, x in enumerate(open(gobs)):
                    o = json.loads(x)
                    if o.get("outcome") == "ok" and (not quick or i % 3 == 0):
                        f.write(json.dumps({"fmt": "gvariant", "T": o["T"], "bytes": o["bytes"], "pos": o["pos"], "le": o["le"], "nfds": 0}) + "\n")
                for x in open(dpc):
                    o = json.loads(x)
                    f.write(json.dumps({"fmt": "gvariant", "sig": "v", "bytes": o["gv"], "pos": 0, "le": True, "nfds": 0}) + "\n")
            corpora.append(gcorp)
        for ci, corp in enumerate(corpora):
            out = chk.path("fuzz_%s_%d.ndjson" % (tag, ci))
            entries += drive(chk, b, corp, out, reps, tag)
            mism, lines2, _ = core.tlc_validate("trace/FuzzCheck.tla", "trace/FuzzCheck.cfg", out, shards=6, timeout=1800)
            for x in lines2:
                o = json.loads(x)
                total_calls += o["calls"]
            for m in mism["MISMATCH"]:
                o = json.loads(lines2[m["line"] - 1])
                d = m["detail"]
                if m["what"] == "abort":
                    key = "abort:%s:%s" % (o["fmt"], o["sig"][:40])
                    chk.report(key, {"clause": "abort", "build": tag, "rc": o.get("rc")}, {"build": list(feats), "call": o["case"] | {"sig": o["sig"] or "v"}})
                else:
                    key = "%s:%s:%s:%s" % (m["what"], d.get("fmt"), d.get("target"), (d.get("msg") or "")[:60])
                    if m["what"] == "alloc" and d.get("alloc_peak", 0) <= 2097152 + 65536 * len(d.get("bytes") or []):
                        # beyond the 256-bytes-per-input-byte bound but within 64 KiB per input byte: the bounded
                        # amplification of dynamic values with deeply nested signatures (a listed finding); anything
                        # larger keeps the plain key and is always reported
                        key = "alloc-amplified:%s:%s" % (d.get("fmt"), d.get("target"))
                    chk.report(key, {"clause": m["what"], "build": tag, "target": d.get("target"), "msg": d.get("msg"), "alloc_peak": d.get("alloc_peak")},
                               {"build": list(feats), "call": {k: d.get(k) for k in ("fmt", "sig", "bytes", "pos", "le", "nfds")}})
            allobs += lines2[:3]
    chk.cov["evaluations"] = total_calls
    chk.cov["corpus_entries"] = entries
    chk.cov["distinct_nontrivial"] = entries  # distinct corpus entries (each mutated `reps` times; all are non-empty byte strings)
    chk.cov["builds"] = ["+".join(f) or "default" for f in BUILDS]
    chk.cov["rule"] = ("corpus = TLC-enumerated D-Bus encodings with every single-byte mutation / truncation (thinned 1/%d in this tier), "
                       "GVariant encodings of TLC-enumerated values, nestings at the depth limits (reference encodings), deep-signature "
                       "families; each entry decoded unmutated and under %d seeded mutations, as a dynamic value for its signature and as 23+ "
                       "typed Rust targets, in 4 feature builds; short GVariant container encodings additionally with every byte set to every "
                       "small value (framing-offset sweep, dynamic targets); evaluations = decode calls; distinct_nontrivial = distinct "
                       "corpus entries") % (step, reps)
    for x in allobs[:4]:
        o = json.loads(x)
        chk.sample({k: o.get(k) for k in ("fmt", "sig", "len", "calls", "max_alloc_peak", "outcome")})
    chk.assumptions += ["crash / abort / allocation observation is plain harness code (catch_unwind, child processes, a counting global allocator); "
                        "the TLA+ side supplies the corpus and the outcome domain",
                        "stack: the default 8 MiB main-thread stack of the child process",
                        "allocation bound: 2 MiB + 256 * (input length + signature length) bytes per call"]
    return chk.finish()
