"""C39: dropping / shutting down a connection (spec/Lifecycle.tla, spec/trace/LifeMon.tla)."""
import json
import random

import core


def adversarial():
    out = []
    out.append([["cloneconn", 1], ["sub", 1, "A", 2], ["quiesce"], ["dropconn"], ["quiesce"], ["dropclone", 1], ["quiesce"], ["dropstream", 1], ["quiesce"]])
    out.append([["sub", 1, "A", 2], ["sub", 2, None, 2], ["quiesce"], ["dropstream", 1], ["dropconn"], ["quiesce"], ["dropstream", 2], ["quiesce"]])
    out.append([["call", 1, False], ["pollc", 1], ["cloneconn", 1], ["quiesce"], ["dropconn"], ["dropclone", 1], ["quiesce"], ["cancelcall", 1], ["quiesce"]])
    # graceful shutdown with 0, 1, 3 in-flight handlers
    out.append([["serve"], ["quiesce"], ["shutdown"], ["quiesce"]])
    out.append([["serve"], ["quiesce"], ["incall", 1], ["quiesce"], ["shutdown"], ["quiesce"], ["open", 1], ["quiesce"]])
    out.append([["serve"], ["quiesce"], ["incall", 1], ["incall", 2], ["incall", 3], ["quiesce"], ["shutdown"], ["quiesce"], ["open", 1], ["quiesce"], ["open", 1], ["quiesce"],
                ["open", 1], ["quiesce"]])
    # shutdown while another handle is still held: completes only when that one goes too
    out.append([["serve"], ["quiesce"], ["cloneconn", 1], ["incall", 1], ["quiesce"], ["shutdown"], ["quiesce"], ["open", 1], ["quiesce"], ["dropclone", 1], ["quiesce"]])
    # graceful shutdown through two / three handles at once: every one of them completes
    out.append([["serve"], ["quiesce"], ["cloneconn", 1], ["incall", 1], ["quiesce"], ["shutdown"], ["shutdownclone", 1], ["quiesce"], ["open", 1], ["quiesce"]])
    out.append([["serve"], ["quiesce"], ["cloneconn", 1], ["cloneconn", 2], ["quiesce"], ["shutdownclone", 2], ["quiesce"], ["shutdown"], ["quiesce"],
                ["shutdownclone", 1], ["quiesce"]])
    return out


def adversarial_bus():
    """On a (fake) bus: a connection that owns well-known names goes away like any other (the tasks that watch the names must
    not keep it alive)."""
    out = []
    for flags in (0, 1, 3, 5):   # bit 0 = AllowReplacement (a task then watches NameLost / NameAcquired), 1 = ReplaceExisting, 2 = DoNotQueue
        out.append([["reqname", flags], ["quiesce"], ["dropconn"], ["quiesce"]])
    out.append([["reqname", 1], ["quiesce"], ["shutdown"], ["quiesce"]])
    out.append([["reqname", 1], ["quiesce"], ["cloneconn", 1], ["sub", 1, "A", 2], ["quiesce"], ["dropconn"], ["quiesce"], ["dropstream", 1], ["quiesce"],
                ["dropclone", 1], ["quiesce"]])
    out.append([["reqname", 5], ["quiesce"], ["cloneconn", 1], ["shutdown"], ["quiesce"], ["shutdownclone", 1], ["quiesce"]])
    return out


def random_steps(rnd):
    steps = []
    if rnd.random() < 0.5:
        # handle soup
        hs = []
        for i in range(1, rnd.randint(2, 5)):
            k = rnd.choice(["clone", "stream", "call"])
            if k == "clone":
                steps.append(["cloneconn", i])
                hs.append(["dropclone", i])
            elif k == "stream":
                steps.append(["sub", i, rnd.choice(["A", "B", None]), 2])
                hs.append(["dropstream", i])
            else:
                steps += [["call", i, False], ["pollc", i]]
                hs.append(["cancelcall", i])
        steps.append(["quiesce"])
        hs.append(["dropconn"])
        rnd.shuffle(hs)
        for h in hs:
            steps.append(h)
            if rnd.random() < 0.6:
                steps.append(["quiesce"])
        steps.append(["quiesce"])
    else:
        n = rnd.randint(0, 4)
        steps += [["serve"], ["quiesce"]] + [["incall", i + 1] for i in range(n)] + [["quiesce"]]
        extra = rnd.random() < 0.3
        if extra:
            steps.append(["cloneconn", 9])
        pre = rnd.randint(0, n)
        for _ in range(pre):
            steps += [["open", 1], ["quiesce"]]
        steps += [["shutdown"], ["quiesce"]]
        if extra and rnd.random() < 0.5:
            # the other handle waits in graceful_shutdown() as well
            steps += [["shutdownclone", 9], ["quiesce"]]
        for _ in range(n - pre):
            steps += [["open", 1]] + ([["quiesce"]] if rnd.random() < 0.7 else [])
        steps.append(["quiesce"])
        if extra:
            steps += [["dropclone", 9], ["quiesce"]]
    return steps


def run(pid, tier, replay):
    chk = core.Check(pid, "model_checking", tier)
    bus = core.build("bus")
    if replay:
        scen = [json.load(open(replay))["replay"]["scenario"]]
    else:
        r = core.tlc("mc/MC_Lifecycle.tla", "mc/MC_Lifecycle.cfg", workers=4, coverage=True, timeout=900)
        m = core.tlc("mc/MC_Lifecycle.tla", "mc/MC_Lifecycle_notify_one.cfg", workers=2, timeout=600)
        if not m.violation or "ShutdownCompletes" not in m.violation:
            raise core.ToolError("MC_Lifecycle: the notify-one mutant was not rejected (vacuous liveness property)")
        chk.cov["mutant_models_rejected"] = ["mc/MC_Lifecycle_notify_one.cfg"]
        if r.violation:
            raise core.ToolError("MC_Lifecycle violates its properties:\n" + r.violation[:2000])
        if any(n == 0 for a, n in r.coverage.items() if not a.endswith(("Next", "Init", "Spec"))):
            raise core.ToolError("MC_Lifecycle: action never taken: %s" % r.coverage)
        chk.add_tlc(r)
        scen = [{"kind": "life", "steps": s, "origin": "adversarial"} for s in adversarial()]
        scen += [{"kind": "life", "bus": True, "steps": s, "origin": "adversarial"} for s in adversarial_bus()]
        rnd = random.Random(chk.seed * 15485863 + 39)
        for _ in range(200 if chk.quick else 10000):
            scen.append({"kind": "life", "steps": random_steps(rnd), "origin": "random"})
    for i, s in enumerate(scen):
        s["id"] = i + 1
    sp = chk.path("scenarios.ndjson")
    with open(sp, "w") as f:
        for s in scen:
            f.write(json.dumps(s) + "\n")
    trace = chk.path("trace.ndjson")
    core.run_bin(bus, ["run", sp, trace], timeout=3000)
    mism, lines, _ = core.tlc_validate_seq("trace/LifeMon.tla", "trace/LifeMon.cfg", trace, shards=10, timeout=3000)
    by_id = {s["id"]: s for s in scen}
    evs = {}
    for ln in lines:
        o = json.loads(ln)
        evs.setdefault(o["scn"], []).append(o)
    for m in mism["MISMATCH"]:
        scn = m["id"]
        chk.report(m["what"], {"clause": m["what"], "detail": m.get("detail"), "origin": by_id.get(scn, {}).get("origin")},
                   {"scenario": by_id.get(scn), "mismatch": m, "trace": evs.get(scn, [])[:300]})
    chk.add("traces_validated_against_impl", len(scen))
    chk.cov["evaluations"] = len(scen)
    chk.cov["events_validated"] = len(lines)
    chk.cov["shutdowns_observed"] = sum(1 for ln in lines if '"ev":"ShutdownDone"' in ln)
    chk.cov["distinct_nontrivial"] = len({json.dumps(s["steps"]) for s in scen if len(s["steps"]) > 4})
    chk.cov["rule"] = ("scenario = a p2p connection with a random set of handles (clones, streams, pending calls) dropped in random order, or an object "
                       "server with 0-4 gated in-flight handlers and graceful_shutdown(); distinct by step list; non-trivial = more than 4 steps")
    for s in scen[:2] + scen[-2:]:
        chk.sample({"origin": s.get("origin"), "steps": s["steps"]})
    chk.assumptions += ["'the peer observes the transport closing' is observed as the drop of both socket halves handed to zbus",
                        "handles held by the driver are counted by the harness (connection, clones, unfinished tasks)"]
    return chk.finish()
