"""C22: a match rule's string form parses back to the same rule (spec/MatchSem.tla: RuleStr / ParseRule).

  cases   <- TLC enumerates rules (spec/gen/Gen_MatchStr.tla: all key combinations; argN values over the characters the
             quoting rules are about), the harness draws random rules and random rule *strings* in the spellings the
             specification allows (quoted, bare, backslash-apostrophe)
  observe <- harness/rules: rule.to_string(), MatchRule::try_from(that), ==, format again; for strings:
             parse -> format -> parse -> format
  decide  <- TLC evaluates spec/trace/RuleStrCheck.tla: the conformant reader ParseRule on the produced string, the
             round trip through zbus, stability; deviations display_unescaped / parser_naive_split are recognised by
             reproducing the observation with MatchSem's deviation definitions.
"""
import json

import core
from props import rules_match as rm


def classify(chk, mism, lines):
    rm.tool_clauses(mism, lines)
    for m in mism:
        obs = json.loads(lines[m["line"] - 1])
        d = m.get("detail") if isinstance(m.get("detail"), dict) else {}
        key = "%s:%s:%s" % (m["what"], d.get("dev", "none"), d.get("class", "?"))
        what = {"clause": m["what"], "detail": rm.text(d), "rule": rm.text(obs.get("rule") or obs.get("r1")),
                "string": obs.get("text")}
        chk.report(key, what, {"observation": obs, "mismatch": m})


def tricky(o):
    if o["ev"] == "ParseStr":
        return True
    return any(set(a["v"]) & {39, 44, 92, 61} or not a["v"] for a in o["rule"].get("args", []))


def run(pid, tier, replay):
    chk = core.Check(pid, "model_checking", tier)
    rm.local_known(chk, ["C22"])
    binp = rm.build("rules")
    if replay:
        return do_replay(chk, binp, replay)
    rm.stage(chk, "start")
    quick = chk.quick
    # One TLC run over the rule universe: the specification's own laws (MC_RuleStr: ParseRule(RuleStr(r)) = r, the
    # unescaped spelling is wrong exactly when a value has an apostrophe, ...) and every rule emitted as a case.
    rm.stage(chk, "build")
    cases = chk.path("cases.ndjson")
    g, n = core.tlc_generate("mc/MC_RuleStr.tla", "mc/MC_RuleStr_gen_%s.cfg" % ("quick" if quick else "thorough"), cases,
                             timeout=3000)
    if n == 0:
        raise core.ToolError("MC_RuleStr emitted no case")
    chk.add_tlc(g)
    chk.add("mc_states", g.distinct)
    rm.stage(chk, "tlc-gen")
    obs = chk.path("obs.ndjson")
    core.run_bin(binp, ["rulestr-obs", cases, obs])
    if sum(1 for _ in open(obs)) != n:
        raise core.ToolError("harness answered fewer lines than the %d cases" % n)
    nr = 2400 if quick else 150000
    robs = chk.path("obs_rand.ndjson")
    core.run_bin(binp, ["rulestr-rand", nr, chk.seed, robs])
    with open(obs, "a") as f, open(robs) as g2:
        for line in g2:
            f.write(line)
    rm.stage(chk, "observe")
    out, lines = rm.validate(chk, "RuleStrCheck", obs, shards=5 if quick else 14, tags=("MISMATCH", "NOTE"))
    rm.stage(chk, "tlc-check")
    classify(chk, out["MISMATCH"], lines)
    chk.add("enumerated_cases", n)
    chk.add("random_cases", len(lines) - n)
    chk.cov["exhaustive"] = True
    total = lines
    objs = [json.loads(x) for x in total[:400000]]
    chk.cov["evaluations"] = len(total)
    chk.cov["random_strings"] = sum(1 for o in objs if o["ev"] == "ParseStr")
    chk.cov["random_strings_accepted_by_zbus"] = sum(1 for o in objs if o["ev"] == "ParseStr" and o.get("accepted"))
    if chk.cov["random_strings_accepted_by_zbus"] == 0:
        raise core.ToolError("vacuous run: zbus accepted none of the random rule strings")
    # outside the property's statement, recorded only: accepted strings zbus reads differently from the conformant
    # reader, grammar-valid strings zbus rejects (e.g. unquoted values)
    notes = {}
    for m in out["NOTE"]:
        notes[m["what"]] = notes.get(m["what"], 0) + 1
    chk.cov["not_judged"] = notes
    if notes:
        chk.notes.append("not part of C22's statement, not judged: %s (random rule strings in spellings the D-Bus grammar "
                         "allows: zbus only reads values that are one quoted section)" % json.dumps(notes))
    chk.cov["distinct_nontrivial"] = core.distinct_count(
        [o for o in objs if tricky(o)], lambda o: json.dumps(o.get("rule") or o.get("s"), sort_keys=True))
    chk.cov["rule"] = ("cases = TLC-enumerated rules (Gen_MatchStr) + seeded random rules + random rule strings; distinct by rule / "
                       "string; non-trivial = some argN value is empty or contains an apostrophe, comma, backslash or '=', or "
                       "the case is a random string")
    picks = [o for o in objs if o["ev"] == "RuleStr" and tricky(o)][:3] + [o for o in objs if o["ev"] == "ParseStr" and o.get("accepted")][:2]
    for o in picks:
        if o["ev"] == "RuleStr":
            chk.sample({"rule": rm.text(o["rule"]), "to_string": o.get("text"), "reparse_ok": o.get("reparse", {}).get("ok")})
        else:
            chk.sample({"string": o.get("text"), "parsed": rm.text(o.get("r1")), "formatted": rm.text(o.get("s2"))})
    chk.assumptions += [
        "rule values other than argN are valid names / paths (they cannot contain the characters that need quoting)",
        "key order and the choice among equivalent spellings are free: the formatter is judged only by what the "
        "conformant reader (MatchSem!ParseRule) and zbus read back",
        "whitespace around keys and values is not exercised (the specification does not define it)",
        "TLC evaluates MatchSem.tla correctly",
    ]
    return chk.finish()


def do_replay(chk, binp, path):
    with open(path) as f:
        rp = json.load(f)
    obs = rp["replay"]["observation"]
    case = chk.path("replay_case.ndjson")
    with open(case, "w") as f:
        if obs["ev"] == "ParseStr":
            f.write(json.dumps({"id": 0, "s": obs["s"], "style": obs.get("style", 0)}) + "\n")
        else:
            f.write(json.dumps({"id": 0, "rule": obs["rule"]}) + "\n")
    out_p = chk.path("replay_obs.ndjson")
    core.run_bin(binp, ["rulestr-obs", case, out_p])
    out, lines = rm.validate(chk, "RuleStrCheck", out_p, shards=1, tags=("MISMATCH", "NOTE"))
    classify(chk, out["MISMATCH"], lines)
    chk.cov["evaluations"] = 1
    o = json.loads(lines[0])
    chk.sample({"rule": rm.text(o.get("rule") or o.get("r1")), "string": o.get("text")})
    return chk.finish()
