"""C24 / C25: the object server's registry and ObjectManager bookkeeping against spec/ObjTree.tla.

Pipeline (identical for both properties; each reports only its own clauses):
  model check  TLC checks the invariants of ObjTree on every history up to a bound and on the complete
               reachable registry graph (spec/mc/MC_ObjTree*.cfg); a run with the deviations switched on must
               violate them (the invariants can see the defects the deviations describe)
  spec -> impl TLC enumerates every at/remove history of length 3 (quick) / 4 (thorough) plus a transition
               cover of the registry graph (spec/gen/Gen_ObjTree); harness/obj replays each on a fresh p2p
               ObjectServer and projects the observable state after every step
  impl -> spec the harness draws seeded random histories of 150-200 steps and records the same projection
  decide       TLC validates every recorded scenario against ObjTree (spec/trace/ObjTreeTrace.tla): a step is
               explained by the deviation-free specification, or only by named deviations (known findings),
               or not at all (MISMATCH per clause; the property clauses give VIOLATION, the rest MODEL-DRIFT)
"""
import hashlib
import json
import os
import re
import subprocess
import time
from concurrent.futures import ThreadPoolExecutor

import core

C24_CLAUSES = {"result", "lookup", "call", "introspect", "children", "ghost-children", "hung"}
C25_CLAUSES = {"prop-mirror", "prop-props"}
C24_DEVS = {"prune": "remove-prunes-node", "root_panic": "root-remove-panic"}
MIRROR_DEVS = {"prune", "nearest_only"}

_COV = re.compile(r"^<(\w+) line \d+, col \d+ to line \d+, col \d+ of module \w+(?: \([\d ]+\))?>: (\d+):(\d+)")


def tlc_coverage(module, cfg, workers=4, timeout=900):
    """TLC with -coverage, returning {action: states generated}.  (core.tlc's coverage pattern does not match
    this TLC version's `<Action line .. of module M (l c l c)>: d:g` lines and keeps only the output tail.)"""
    mpath = os.path.join(core.SPEC, module)
    meta = os.path.join(core.WORK, "tlc", "cov%d_%d" % (os.getpid(), int(time.time() * 1e6) % 10**9))
    os.makedirs(meta, exist_ok=True)
    cmd = ["timeout", str(timeout), "java", "-Xss1g", "-XX:+UseParallelGC", "-Xmx4g",
           "-DTLA-Library=%s:%s:%s:%s" % (core.SPEC, os.path.join(core.SPEC, "mc"), os.path.join(core.SPEC, "gen"),
                                          os.path.join(core.SPEC, "trace")),
           "-cp", core.TLA_CP, "tlc2.TLC", "-workers", str(workers), "-metadir", meta, "-cleanup",
           "-noGenerateSpecTE", "-coverage", "1", "-config", os.path.join(core.SPEC, cfg), mpath]
    env = dict(os.environ)
    env.pop("JAVA_TOOL_OPTIONS", None)
    r = subprocess.run(cmd, cwd=os.path.dirname(mpath), env=env, capture_output=True, text=True, errors="replace")
    import shutil
    shutil.rmtree(meta, ignore_errors=True)
    if r.returncode != 0:
        raise core.ToolError("TLC (coverage run) failed on %s/%s rc=%d:\n%s" % (module, cfg, r.returncode, r.stdout[-3000:]))
    cov = {}
    gen = dist = 0
    for line in r.stdout.split("\n"):
        m = _COV.match(line)
        if m:
            cov[m.group(1)] = cov.get(m.group(1), 0) + int(m.group(3))
        m = re.match(r"^(\d+) states generated, (\d+) distinct states found", line)
        if m:
            gen, dist = int(m.group(1)), int(m.group(2))
    return cov, gen, dist


def model_check(chk, pid):
    quick = chk.quick
    t0 = time.time()
    # vacuity guard: a small run with -coverage must take every outcome class of at / remove
    cov, gen, dist = tlc_coverage("mc/MC_ObjTree.tla", "mc/MC_ObjTree_cov.cfg", workers=2)
    for a in ("AtAdded", "AtRefused", "RemoveOk", "RemoveAbsent"):
        if cov.get(a, 0) == 0:
            raise core.ToolError("vacuity: action %s of ObjTree never taken (coverage %s)" % (a, cov))
    chk.cov["mc_action_coverage"] = cov
    # every history up to the bound, history kept in the state
    cfg = "mc/MC_ObjTree_hist.cfg" if quick else "mc/MC_ObjTree_hist4.cfg"
    r = core.tlc("mc/MC_ObjTree.tla", cfg, workers=6, timeout=1500)
    if r.violation:
        raise core.ToolError("ObjTree violates its own invariants (specification error):\n%s" % r.violation[:3000])
    chk.add("states", r.distinct)
    chk.add("transitions", r.generated)
    chk.cov["mc_histories_checked"] = r.generated
    # the complete reachable graph of registries (history hidden by VIEW)
    r = core.tlc("mc/MC_ObjTree.tla", "mc/MC_ObjTree_deep.cfg", workers=6, timeout=1500)
    if r.violation:
        raise core.ToolError("ObjTree violates its own invariants (specification error):\n%s" % r.violation[:3000])
    chk.add_tlc(r)
    chk.cov["mc_registry_graph_states"] = r.distinct
    # deviations on: the invariant of this property must be violated, else the deviations (and the known
    # findings they stand for) would be invisible to it
    dcfg = "mc/MC_ObjTree_devs24.cfg" if pid == "C24" else "mc/MC_ObjTree_devs25.cfg"
    r = core.tlc("mc/MC_ObjTree.tla", dcfg, workers=4, timeout=600)
    if not r.violation or "is violated" not in r.violation:
        raise core.ToolError("deviation model %s does not violate the invariants: %s" % (dcfg, (r.violation or r.raw_tail)[-1500:]))
    chk.cov["mc_deviation_model_violates"] = True
    core.log("[%s] model checking %.1fs" % (pid, time.time() - t0))


def validate(chk, obs_path, shards, workers):
    """Run ObjTreeTrace over an observation file (one scenario per line), sharded over parallel JVMs.
    Returns (scenarios by id, DONE ids, DEV records, MISMATCH records)."""
    with open(obs_path) as f:
        lines = [x for x in f.read().split("\n") if x.strip()]
    if not lines:
        raise core.ToolError("no scenarios in %s" % obs_path)
    shards = max(1, min(shards, (len(lines) + 99) // 100))
    per = (len(lines) + shards - 1) // shards
    paths = []
    for i in range(shards):
        chunk = lines[i * per:(i + 1) * per]
        if chunk:
            p = "%s.s%d" % (obs_path, i)
            with open(p, "w") as f:
                f.write("\n".join(chunk) + "\n")
            paths.append(p)

    def one(p):
        r = core.tlc("trace/ObjTreeTrace.tla", "trace/ObjTreeTrace.cfg", env={"TRACE": p}, workers=workers, timeout=3000,
                     heap="3g")
        if r.violation:
            raise core.ToolError("ObjTreeTrace failed on %s:\n%s" % (p, r.violation[:3000]))
        return r

    with ThreadPoolExecutor(max_workers=len(paths)) as ex:
        rs = list(ex.map(one, paths))
    done, devs, mism = set(), [], []
    for r in rs:
        for d in r.emits.get("DONE", []):
            done.add(d["id"])
        devs += r.emits.get("DEV", [])
        mism += r.emits.get("MISMATCH", [])
    for p in paths:
        os.unlink(p)
    scen = {}
    for x in lines:
        o = json.loads(x)
        scen[o["id"]] = o
    failed = {m["id"] for m in mism}
    if done | failed != set(scen) or done & failed:
        raise core.ToolError("ObjTreeTrace consumed %d + %d of %d scenarios of %s" % (len(done), len(failed), len(scen), obs_path))
    return scen, done, devs, mism


def names_of(sc):
    """element names <<a, b, c>> back from the concrete paths the harness recorded (["/", "/a", "/a/b", "/c"])"""
    n = sc.get("names")
    if not n:
        return ["a", "b", "c"]
    return [n[1][1:], n[2].rsplit("/", 1)[1], n[3][1:]]


def ops_of(sc, upto=None):
    st = sc["steps"] if upto is None else sc["steps"][:upto]
    return [{"op": s["op"], "p": s["p"], "i": s["i"], "v": s["v"]} for s in st]


def classify(chk, pid, scen, done, devs, mism):
    """Verdicts for property pid from the validator's records."""
    drift = 0
    # steps explained only with a deviation
    for d in devs:
        sc = scen[d["id"]]
        rp = {"ops": ops_of(sc, d["step"]), "names": names_of(sc)}
        if d["dev"] == "mirror":
            if pid != "C25":
                continue
            used = sorted(set(d.get("used", [])) & MIRROR_DEVS)
            key = "mirror:" + ("+".join(used) if used else "unexplained")
            chk.report(key, {"clause": "mirror != listing", "step": d["step"], "op": d["op"], "deviations": used}, rp)
        elif pid == "C24" and d["dev"] in C24_DEVS:
            chk.report(C24_DEVS[d["dev"]], {"clause": d["dev"], "step": d["step"], "op": d["op"]}, rp)
        elif pid == "C24":
            chk.report("deviation:" + d["dev"], {"clause": d["dev"], "step": d["step"], "op": d["op"]}, rp)
    # steps nothing explains
    by_sc = {}
    for m in mism:
        by_sc.setdefault(m["id"], []).append(m)
    mine = C24_CLAUSES if pid == "C24" else C25_CLAUSES
    for sid, ms in by_sc.items():
        sc = scen[sid]
        whats = {m["what"] for m in ms}
        hit = sorted(whats & mine)
        rp = {"ops": ops_of(sc, ms[0]["step"]), "names": names_of(sc)}
        if hit:
            o = ms[0]["op"]
            key = "%s:%s:%s:%s" % (hit[0], o[0], o[2], "root" if o[1] == "/" else "nonroot")
            chk.report(key, {"clauses": hit, "step": ms[0]["step"], "op": o,
                             "detail": {k: ms[0].get(k) for k in ("expected", "got", "listing", "sigs") if k in ms[0]}}, rp)
        else:
            drift += 1
            core.log("MODEL-DRIFT property=%s scenario %s step %d: clauses %s not explained by ObjTree; the %s predicates hold" % (
                pid, sid, ms[0]["step"], sorted(whats), pid))
            if len(chk.notes) < 10:
                chk.notes.append("MODEL-DRIFT scenario %s step %d clauses %s" % (sid, ms[0]["step"], sorted(whats)))
    return drift


def nontrivial(sc):
    st = sc["steps"]
    return any(s["res"] == "added" for s in st) and any(s["res"] in ("refused", "ok", "err", "panic") for s in st)


def run(pid, tier, replay):
    chk = core.Check(pid, "model_checking", tier)
    obj = core.build("obj")
    if replay:
        return do_replay(chk, pid, obj, replay)
    quick = chk.quick

    # the three phases are independent; run them side by side (results are merged on this thread)
    def enum_phase():
        # spec -> impl: TLC-enumerated histories (both generators in parallel)
        t0 = time.time()

        def gen(name):
            part = chk.path("gen_%s.ndjson" % name)
            g, n = core.tlc_generate("gen/Gen_ObjTree.tla", "gen/Gen_ObjTree_%s_%s.cfg" % ("quick" if quick else "thorough", name),
                                     part, timeout=3000, workers=4)
            return part, g, n
        with ThreadPoolExecutor(max_workers=2) as ex:
            parts = list(ex.map(gen, ("all", "cover")))
        cases = chk.path("cases.ndjson")
        with open(cases, "w") as out:
            for (part, g, n), base in zip(parts, (0, 500000)):
                for line in open(part):
                    c = json.loads(line)
                    c["id"] += base
                    out.write(json.dumps(c) + "\n")
        core.log("[%s] generated %d + %d histories in %.1fs" % (pid, parts[0][2], parts[1][2], time.time() - t0))
        t0 = time.time()
        obs = chk.path("obs_enum.ndjson")
        nproc = 1 if quick else 8          # the replay is single-threaded; split the case file for the big tier
        lines = open(cases).read().split("\n")
        lines = [x for x in lines if x]
        chunks = []
        for i in range(nproc):
            cp, op = chk.path("cases.%d" % i), chk.path("obs_enum.%d" % i)
            with open(cp, "w") as f:
                f.write("\n".join(lines[i::nproc]) + "\n")
            chunks.append((cp, op))
        with ThreadPoolExecutor(max_workers=nproc) as ex2:
            list(ex2.map(lambda c: core.run_bin(obj, ["tree-replay", c[0], c[1]], timeout=7200), chunks))
        with open(obs, "w") as f:
            for cp, op in chunks:
                f.write(open(op).read())
                os.unlink(cp)
                os.unlink(op)
        core.log("[%s] replayed in %.1fs" % (pid, time.time() - t0))
        return parts, obs

    def rand_phase():
        # impl -> spec: seeded random long histories (one operation in eight is "atrm": a registration and the removal
        # of the same pair issued concurrently), plus fixed histories with atrm below 0, 1 and 2 managers
        robs = chk.path("obs_rand.ndjson")
        nr, ln = (40, 150) if quick else (600, 200)
        core.run_bin(obj, ["tree-rand", nr, ln, chk.seed, robs])
        fixed = chk.path("cases_race.ndjson")
        with open(fixed, "w") as f:
            n = 0
            for names in (["a", "b", "c"], ["a", "a", "aa"], ["dev10", "1", "dev"]):
                for mgrs in ([], ["/"], ["/a"], ["/", "/a"]):
                    for p in ("/a/b", "/a", "/c"):
                        for i in ("I1", "I2"):
                            ops = [{"op": "at", "p": m, "i": "OM", "v": k + 1} for k, m in enumerate(mgrs)]
                            ops += [{"op": "atrm", "p": p, "i": i, "v": 7}, {"op": "at", "p": p, "i": i, "v": 8},
                                    {"op": "atrm", "p": p, "i": i, "v": 9}, {"op": "remove", "p": p, "i": i, "v": 0}]
                            f.write(json.dumps({"id": 900000 + n, "ops": ops, "names": names}) + "\n")
                            n += 1
        fobs = chk.path("obs_race.ndjson")
        core.run_bin(obj, ["tree-replay", fixed, fobs])
        with open(robs, "a") as f:
            f.write(open(fobs).read())
        return robs

    with ThreadPoolExecutor(max_workers=3) as ex:
        f_mc = ex.submit(model_check, chk, pid)
        f_en = ex.submit(enum_phase)
        robs = rand_phase()
        parts, obs = f_en.result()
        # one validation pass over all recorded scenarios (ids are disjoint: random ones start at 1 000 000)
        t0 = time.time()
        allobs = chk.path("obs_all.ndjson")
        with open(allobs, "w") as f:
            f.write(open(obs).read())
            f.write(open(robs).read())
        total, done, devs, mism = validate(chk, allobs, shards=2 if quick else 12, workers=4 if quick else 2)
        core.log("[%s] validated %d scenarios in %.1fs" % (pid, len(total), time.time() - t0))
        f_mc.result()
    for _, g, _ in parts:
        chk.add_tlc(g)
    n_all, n_cov = parts[0][2], parts[1][2]
    drift = classify(chk, pid, total, done, devs, mism)
    n_rand = sum(1 for i in total if i >= 900000)
    chk.add("enumerated_cases", n_all + n_cov)
    chk.cov["exhaustive"] = len(total) - n_rand == n_all + n_cov
    chk.cov["exhaustive_scope"] = "every at/remove history of length %d over 4 paths x 3 interfaces (%d), plus %d transition-cover histories" % (
        3 if quick else 4, n_all, n_cov)
    n_done = len(done)
    chk.add("random_cases", n_rand)

    chk.add("traces_validated_against_impl", n_done)
    chk.cov["scenarios_stopped_at_unexplained_step"] = len(total) - n_done
    chk.cov["model_drift_scenarios"] = drift
    chk.cov["evaluations"] = sum(len(s["steps"]) for s in total.values())
    chk.cov["distinct_nontrivial"] = len({hashlib.sha1(json.dumps(ops_of(s)).encode()).digest() for s in total.values() if nontrivial(s)})
    chk.cov["rule"] = ("scenario = one at/remove history replayed on a fresh p2p ObjectServer with a full projection after every step; "
                       "evaluations = steps validated by TLC; distinct by operation sequence; non-trivial = at least one successful "
                       "registration and at least one removal / duplicate / failing operation")
    ids = sorted(total)
    if pid == "C25":   # show histories in which a manager announced something
        ids = [i for i in ids if any(st["sigs"] for st in total[i]["steps"])] or ids
    for i in (ids[len(ids) // 3], ids[len(ids) // 2], ids[-1]):
        s = total[i]
        j = min(5, len(s["steps"]) - 1)
        if pid == "C25":
            j = max(k for k in range(min(12, len(s["steps"]))) if s["steps"][k]["sigs"] or k == 0)
        chk.sample({"id": i, "names": names_of(s), "ops": ops_of(s)[:j + 1], "after_last_op": {k: s["steps"][j].get(k) for k in (
            "res", "look", "call", "intro", "kids", "listing", "sigs")}})
    chk.assumptions += [
        "the universe is 4 tree positions (root, /a, /a/b, /c) x {I1, I2, ObjectManager}, replayed under the 6 element namings of ObjTree!Namings "
        "(repeated elements, substrings, prefixes); deeper trees and other interface types behave alike",
        "the standard interfaces zbus adds to every node (Peer, Introspectable, Properties) are abstracted away",
        "the harness projection (harness/obj/src/tree.rs) reports what the public API returns; TLC evaluates ObjTree correctly",
    ]
    return chk.finish()


def do_replay(chk, pid, obj, path):
    with open(path) as f:
        rp = json.load(f)
    ops = rp["replay"]["ops"]
    case = chk.path("replay_case.ndjson")
    with open(case, "w") as f:
        f.write(json.dumps({"id": 0, "ops": ops, "names": rp["replay"].get("names", ["a", "b", "c"])}) + "\n")
    obs = chk.path("replay_obs.ndjson")
    core.run_bin(obj, ["tree-replay", case, obs])
    scen, done, devs, mism = validate(chk, obs, shards=1, workers=1)
    classify(chk, pid, scen, done, devs, mism)
    chk.add("traces_validated_against_impl", len(done))
    chk.cov["evaluations"] = len(ops)
    chk.sample(scen[0]["steps"][-1])
    return chk.finish()
