"""C28: the org.freedesktop.DBus.Properties interface behaves as the property definitions say.

  model check  spec/mc/MC_Props (Props.tla against invariants that state C28 with history variables)
  program      the TLC-generated interfaces of props.iface_rpc.make_program (property tables: type x access x emits)
  histories    spec/gen/Gen_Props: per interface, seeded histories of Get / GetAll / Set(right | near | wrong type,
               unknown property, unknown interface; read-only and write-only properties included)
  observe      harness/iface `props`: a fresh p2p pair per history; every reply, every PropertiesChanged signal
               and the server-side values after every call
  decide       spec/trace/PropsTrace.tla walks each recorded history through the specification (trace-spec pattern:
               one step per event, Reset between scenarios) and prints one MISMATCH per violated clause
"""
import json
import os
from concurrent.futures import ThreadPoolExecutor

import core
from props import iface_rpc as common

DEPTH = {"quick": 30, "thorough": 120}
PER = {"quick": 8, "thorough": 16}

DEVS = {"dict_variant_coercion"}


def model_check(chk):
    r = core.tlc("mc/MC_Props.tla", "mc/MC_Props.cfg", workers=4, coverage=True, timeout=900)
    if r.violation:
        raise core.ToolError("MC_Props: the specification violates its own invariants:\n" + r.violation[:3000])
    for a in ("Get", "GetAll", "SetOk", "SetRejected"):
        if r.coverage.get(a, 0) == 0:
            raise core.ToolError("MC_Props: action %s never taken (vacuous model); coverage=%s" % (a, r.coverage))
    chk.add_tlc(r)
    chk.cov["mc_actions"] = r.coverage


def gen_histories(chk, prog, batch, depth, per):
    cfg = common.write_cfg(chk, "gen_props_%d.cfg" % batch,
                           {"NIFACE": prog.niface, "SEED": prog.seed, "HSEED": (chk.seed * 17 + batch) % 1000,
                            "DEPTH": depth, "PER": per})
    out = chk.path("hists_%d.ndjson" % batch)
    g, n = core.tlc_generate("gen/Gen_Props.tla", cfg, out, workers=2, timeout=1500)
    chk.add_tlc(g)
    return out, n


def validate_histories(chk, prog, obs, shards=6):
    """Run PropsTrace over the recorded scenarios (split at Reset events into shards)."""
    with open(obs) as f:
        lines = [x for x in f.read().split("\n") if x.strip()]
    if not lines:
        raise core.ToolError("no observations in %s" % obs)
    scen = []
    for i, x in enumerate(lines):
        if x.startswith('{"ev":"Reset"') or json.loads(x)["ev"] == "Reset":
            scen.append([])
        scen[-1].append(i)
    shards = max(1, min(shards, len(scen)))
    groups = [[] for _ in range(shards)]
    for i, s in enumerate(scen):
        groups[i % shards].append(s)
    jobs = []
    for gi, g in enumerate(groups):
        idx = [i for s in g for i in s]
        p = "%s.shard%d" % (obs, gi)
        with open(p, "w") as f:
            f.write("\n".join(lines[i] for i in idx) + "\n")
        jobs.append((p, idx))

    def one(job):
        p, idx = job
        env = dict(prog.env(), TRACE=p)
        r = core.tlc("trace/PropsTrace.tla", "trace/PropsTrace.cfg", env=env, workers=1, timeout=1500,
                     keep_emit_tags={"MISMATCH", "DONE"}, heap="3g")
        if r.violation:
            raise core.ToolError("PropsTrace failed on %s:\n%s" % (p, r.violation[:3000]))
        done = r.emits.get("DONE", [])
        if not done or done[-1].get("consumed") != len(idx):
            raise core.ToolError("PropsTrace consumed %s of %d events of %s" % (done, len(idx), p))
        for m in r.emits.get("MISMATCH", []):
            m["line"] = idx[m["line"] - 1] + 1
        return r

    with ThreadPoolExecutor(max_workers=len(jobs)) as ex:
        rs = list(ex.map(one, jobs))
    mism = []
    for r in rs:
        mism += r.emits.get("MISMATCH", [])
        chk.add("trace_states", r.distinct)
    for p, _ in jobs:
        os.unlink(p)
    return mism, lines, len(scen)


def history_of(lines, line_no):
    """The operations of the scenario that contains 1-based line `line_no`, up to and including it."""
    i = line_no - 1
    start = i
    while json.loads(lines[start])["ev"] != "Reset":
        start -= 1
    reset = json.loads(lines[start])
    ops = []
    for x in lines[start + 1:i + 1]:
        o = json.loads(x)
        op = {"op": o["ev"], "ifname": o["ifname"], "prop": o["prop"]}
        if o["ev"] == "Set":
            op["value"] = o["value"]
        ops.append(op)
    return {"id": reset["hid"], "iface": reset["iface"], "ops": ops}


def classify(chk, prog, mism, lines):
    for m in mism:
        what = m["what"]
        if what.startswith("harness-"):
            raise core.ToolError("harness inconsistency: %s / %s" % (json.dumps(m)[:500], lines[m["line"] - 1][:800]))
        d = m.get("detail") if isinstance(m.get("detail"), dict) else {}
        replay = {"kind": "history", "tier": chk.tier, "niface": prog.niface, "shape_seed": prog.seed,
                  "history": history_of(lines, m["line"]), "observation": json.loads(lines[m["line"] - 1]), "mismatch": m}
        devs = d.get("devs") or []
        if devs:
            for dv in devs:
                chk.report("c28:dev:%s" % dv, {"clause": what, "deviation": dv, "detail": d}, replay)
        else:
            chk.report("%s:%s" % (what, d.get("cls", m.get("op"))), {"clause": what, "detail": m.get("detail")}, replay)


def run(pid, tier, replay):
    chk = core.Check(pid, "model_checking", tier)
    if replay:
        return do_replay(chk, replay)
    model_check(chk)
    events = []
    for b in range(common.TIERS[chk.tier]["batches"]):
        prog = common.make_program(chk, b)
        hists, n = gen_histories(chk, prog, b, DEPTH[chk.tier], PER[chk.tier])
        obs = chk.path("props_obs_%d.ndjson" % b)
        core.run_bin(prog.binary, ["props", prog.trees_path, hists, obs], timeout=1500)
        mism, lines, nscen = validate_histories(chk, prog, obs)
        if nscen != n:
            raise core.ToolError("harness ran %d of %d histories" % (nscen, n))
        classify(chk, prog, mism, lines)
        chk.add("programs", len(prog.shapes))
        chk.add("properties", sum(len(s["props"]) for s in prog.shapes))
        chk.add("histories", n)
        chk.add("traces_validated_against_impl", nscen)
        events += [json.loads(x) for x in lines if '"ev":"Reset"' not in x]
    chk.cov["evaluations"] = len(events)
    chk.cov["history_length"] = DEPTH[chk.tier]
    chk.cov["sets_accepted"] = sum(1 for o in events if o["ev"] == "Set" and o["rtype"] == "return")
    chk.cov["sets_rejected"] = sum(1 for o in events if o["ev"] == "Set" and o["rtype"] == "error")
    chk.cov["signals_observed"] = sum(len(o["signals"]) for o in events)
    chk.cov["distinct_nontrivial"] = core.distinct_count(
        [o for o in events if o["ev"] == "Set" or o["rtype"] == "error"],
        lambda o: json.dumps([o["iface"], o["ev"], o["ifname"], o["prop"], o.get("value"), o["server"]], sort_keys=True))
    chk.cov["rule"] = ("events = calls of Get/GetAll/Set in TLC-generated histories over the generated property tables; distinct by "
                       "(interface, call, arguments, server values after the call); non-trivial = every Set and every call that must fail")
    for o in events[:400]:
        if o["ev"] == "Set" and o["signals"]:
            chk.sample({k: o[k] for k in ("ev", "ifname", "prop", "value", "rtype", "signals")})
            break
    for o in events[:400]:
        if o["ev"] == "Set" and o["rtype"] == "error":
            chk.sample({k: o[k] for k in ("ev", "ifname", "prop", "value", "rtype", "rname")})
            break
    for o in events[:400]:
        if o["ev"] == "GetAll" and o["rtype"] == "return" and o["all"]:
            chk.sample({k: o[k] for k in ("ev", "ifname", "rtype", "all")})
            break
    chk.assumptions += [
        "the generated Rust source (lib/iface_codegen.py) is a faithful rendering of the TLC-emitted property tables",
        "server-side values are read directly from the interface object (InterfaceRef) after every call and are the ground truth for 'Set updates'",
        "signals are attributed to the call after which they arrive before quiescence of the single-threaded executor loop",
        "TLC evaluates Props.tla correctly",
    ]
    return chk.finish()


def do_replay(chk, path):
    with open(path) as f:
        rp = json.load(f)["replay"]
    prog = common.make_program(chk, 0, niface=rp["niface"], seed=rp["shape_seed"], ntree=1)
    hists = chk.path("replay_hist.ndjson")
    with open(hists, "w") as f:
        f.write(json.dumps(rp["history"]) + "\n")
    obs = chk.path("replay_obs.ndjson")
    core.run_bin(prog.binary, ["props", prog.trees_path, hists, obs])
    mism, lines, nscen = validate_histories(chk, prog, obs, shards=1)
    classify(chk, prog, mism, lines)
    chk.add("traces_validated_against_impl", nscen)
    chk.cov["evaluations"] = len(lines) - 1
    chk.sample(json.loads(lines[-1]))
    return chk.finish()
