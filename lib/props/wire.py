"""C01 / C02 / C03: D-Bus wire format of zvariant against spec/DBusWire.tla.

Pipeline (one code path for both directions):
  cases   <- TLC enumerates Gen_DBusWire / Gen_DBusMut (spec -> impl), or the harness draws random ones
  observe <- harness/wire runs the real encoder / decoder on every case, one ndjson line per call
  decide  <- TLC evaluates spec/trace/WireCheck.tla on every line and prints one MISMATCH per violated clause
Clauses are mapped to properties below; a property's check only reports its own clauses.
"""
import json
import os

import core

CLAUSES = {
    "C01": {"enc-outcome", "enc-bytes", "enc-size", "enc-nfds", "enc-type"},
    "C02": {"rt-outcome", "rt-value", "rt-consumed"},
    "C03": {"dec-panic", "dec-rejects-valid", "dec-accepts-invalid", "dec-value", "dec-consumed"},
}
TOOL_CLAUSES = {"spec-selfcheck"}


def nontrivial_enc(o):
    t = o.get("T", {})
    return t.get("k") in ("a", "r", "v") or o.get("pos", 0) % 8 != 0


def classify(chk, pid, mism, lines, keyf):
    """Turn MISMATCH records into violations / known findings for property pid."""
    for m in mism:
        what = m["what"]
        if what in TOOL_CLAUSES:
            raise core.ToolError("specification self-check failed (Decode o Marshal law): %s / %s" % (
                json.dumps(m)[:800], lines[m["line"] - 1][:800]))
        if what not in CLAUSES[pid]:
            continue
        obs = json.loads(lines[m["line"] - 1])
        key = keyf(what, m, obs)
        chk.report(key, {"clause": what, "detail": m.get("detail")}, {"observation": obs, "mismatch": m})


def key_default(what, m, obs):
    # class of failing input: clause + signature of the value's type
    return "%s:%s" % (what, sig_of(obs.get("T", {})))


def sig_of(t):
    k = t.get("k", "?")
    if k == "a":
        return "a" + sig_of(t["e"])
    if k == "e":
        return "{" + sig_of(t["key"]) + sig_of(t["val"]) + "}"
    if k == "r":
        return "(" + "".join(sig_of(x) for x in t["f"]) + ")"
    if k == "m":
        return "m" + sig_of(t["e"])
    return k


def run_enc(chk, pid, wire):
    quick = chk.quick
    # spec -> impl: bounded-exhaustive enumeration by TLC
    cases = chk.path("cases.ndjson")
    cfg = "gen/Gen_DBusWire_quick.cfg" if quick else "gen/Gen_DBusWire_thorough.cfg"
    g, n = core.tlc_generate("gen/Gen_DBusWire.tla", cfg, cases, timeout=3000)
    chk.add_tlc(g)
    obs = chk.path("obs_enum.ndjson")
    core.run_bin(wire, ["obs-enc", cases, obs])
    mism, lines, rs = core.tlc_validate("trace/WireCheck.tla", "trace/WireCheck.cfg", obs, shards=12, timeout=3000)
    classify(chk, pid, mism["MISMATCH"], lines, key_default)
    chk.add("enumerated_cases", n)
    chk.cov["exhaustive"] = True
    chk.add("traces_validated_against_impl", len(lines))
    total = list(lines)
    # impl -> spec: seeded random values
    nr = 4000 if quick else 150000
    robs = chk.path("obs_rand.ndjson")
    core.run_bin(wire, ["rand-enc", nr, chk.seed, "dbus", robs])
    mism, lines, rs = core.tlc_validate("trace/WireCheck.tla", "trace/WireCheck.cfg", robs, shards=14, timeout=3000)
    classify(chk, pid, mism["MISMATCH"], lines, key_default)
    chk.add("traces_validated_against_impl", len(lines))
    chk.add("random_cases", len(lines))
    total += lines
    chk.cov["evaluations"] = len(total)
    objs = [json.loads(x) for x in total[:200000]]
    chk.cov["distinct_nontrivial"] = core.distinct_count(
        [o for o in objs if nontrivial_enc(o)], lambda o: json.dumps([o.get("T"), o.get("v"), o.get("pos"), o.get("le")]))
    chk.cov["rule"] = ("cases = TLC-enumerated type trees (Gen_DBusWire) x canonical values x offsets x endian, plus seeded random "
                       "values; distinct by (type, value, offset, endian); non-trivial = container / variant type or offset not 8-aligned")
    for o in objs[:2] + objs[-2:]:
        chk.sample({k: o.get(k) for k in ("T", "v", "pos", "le", "bytes", "size", "nfds")})


def run_dec(chk, pid, wire):
    quick = chk.quick
    cases = chk.path("mut.ndjson")
    cfg = "gen/Gen_DBusMut_quick.cfg" if quick else "gen/Gen_DBusMut_thorough.cfg"
    g, n = core.tlc_generate("gen/Gen_DBusMut.tla", cfg, cases, timeout=3000)
    chk.add_tlc(g)
    # nestings at and beyond the depth limits (reference encodings from Gen_Depths), decoded as variants
    dcases = chk.path("depth_cases.ndjson")
    gd, nd = core.tlc_generate("gen/Gen_Depths.tla", "gen/Gen_Depths_quick.cfg", dcases, timeout=3000)
    chk.add_tlc(gd)
    with open(cases, "a") as f:
        for i, line in enumerate(open(dcases)):
            o = json.loads(line)
            f.write(json.dumps({"id": n + i, "T": {"k": "v"}, "bytes": o["dbus"], "pos": 0, "le": True, "nfds": 0}) + "\n")
    n += nd
    obs = chk.path("obs_mut.ndjson")
    core.run_bin(wire, ["obs-dec", cases, obs])
    mism, lines, rs = core.tlc_validate("trace/WireCheck.tla", "trace/WireCheck.cfg", obs, shards=14, timeout=3000)
    classify(chk, pid, mism["MISMATCH"], lines, key_dec)
    chk.add("enumerated_cases", n)
    chk.cov["exhaustive"] = True
    chk.add("traces_validated_against_impl", len(lines))
    total = list(lines)
    nr = 5000 if quick else 200000
    robs = chk.path("obs_rmut.ndjson")
    core.run_bin(wire, ["rand-dec", nr, chk.seed, "dbus", robs])
    mism, lines, rs = core.tlc_validate("trace/WireCheck.tla", "trace/WireCheck.cfg", robs, shards=14, timeout=3000)
    classify(chk, pid, mism["MISMATCH"], lines, key_dec)
    chk.add("traces_validated_against_impl", len(lines))
    chk.add("random_cases", len(lines))
    total += lines
    chk.cov["evaluations"] = len(total)
    objs = [json.loads(x) for x in total[:300000]]
    chk.cov["distinct_nontrivial"] = core.distinct_count(
        objs, lambda o: json.dumps([o.get("T"), o.get("bytes"), o.get("pos"), o.get("le")]))
    chk.cov["accepted_by_impl"] = sum(1 for o in objs if o["dec"]["outcome"] == "ok")
    chk.cov["rule"] = ("cases = every single-byte mutation (to 0, 1, 255, old xor 1, old xor 128) and every truncation of every "
                       "TLC-enumerated valid encoding, plus seeded random multi-byte mutations; all are distinct byte strings "
                       "and all exercise a validity rule, so every distinct (type, bytes, offset, endian) counts")
    for o in objs[:2] + objs[-2:]:
        chk.sample({k: o.get(k) for k in ("T", "bytes", "pos", "le", "dec")})


def key_dec(what, m, obs):
    why = ""
    d = m.get("detail")
    if isinstance(d, dict):
        why = d.get("why", "")
    return "%s:%s" % (what, why) if why else "%s:%s" % (what, sig_of(obs.get("T", {})))


def run(pid, tier, replay):
    level = "model_checking"
    chk = core.Check(pid, level, tier)
    wire = core.build("wire")
    if replay:
        return do_replay(chk, pid, wire, replay)
    if pid in ("C01", "C02"):
        run_enc(chk, pid, wire)
        if pid == "C02":
            # second format: GVariant round trip (same pipeline, gvariant build of the harness)
            from props import gv
            ev, dn = chk.cov["evaluations"], chk.cov["distinct_nontrivial"]
            total = gv.run_gv(chk, pid)
            chk.cov["evaluations"] = ev + len(total)
            chk.cov["gvariant_cases"] = len(total)
    else:
        run_dec(chk, pid, wire)
    chk.assumptions += [
        "fixed-width numbers are opaque byte tuples in the specification; u64<->bytes conversion (to_be_bytes) in the harness is trusted",
        "the harness's abstraction of zvariant::Value (harness/wire/src/model.rs) is faithful",
        "TLC evaluates DBusWire.tla correctly",
    ]
    return chk.finish()


def do_replay(chk, pid, wire, path):
    with open(path) as f:
        rp = json.load(f)
    obs = rp["replay"]["observation"]
    case = chk.path("replay_case.ndjson")
    with open(case, "w") as f:
        f.write(json.dumps(obs) + "\n")
    out = chk.path("replay_obs.ndjson")
    core.run_bin(wire, ["obs-enc" if obs.get("ev") == "Enc" else "obs-dec", case, out])
    mism, lines, _ = core.tlc_validate("trace/WireCheck.tla", "trace/WireCheck.cfg", out, shards=1)
    classify(chk, pid, mism["MISMATCH"], lines, key_dec if pid == "C03" else key_default)
    chk.add("traces_validated_against_impl", 1)
    chk.cov["evaluations"] = 1
    chk.sample(json.loads(lines[0]))
    return chk.finish()
