"""C05 (GVariant normal form) and the GVariant half of C02, against spec/GVariantWire.tla."""
import json

import core
from props.wire import sig_of

CL_C05 = {"gv-enc-outcome", "gv-enc-bytes", "gv-enc-size", "gv-enc-type"}
CL_C02 = {"gv-rt-outcome", "gv-rt-value", "gv-rt-consumed"}


def classify_gv(chk, pid, mism, lines):
    """Known findings are *named deviations* of the specification (GVariantWire.tla, `devs`): a byte
    mismatch is a known finding only if the observed bytes equal the specification evaluated with a
    set of deviations that are all listed; round-trip failures are keyed by the deviation that
    explains the same line's encoding."""
    want = CL_C05 if pid == "C05" else CL_C02
    line_devs = {}
    for m in mism:
        if m["what"] == "gv-enc-bytes":
            d = m["detail"].get("devs") or []
            line_devs[m["line"]] = sorted(d[0]) if d else None
    for m in mism:
        if m["what"] not in want:
            continue
        obs = json.loads(lines[m["line"] - 1])
        devs = line_devs.get(m["line"])
        rp = {"observation": {k: obs.get(k) for k in ("ev", "id", "fmt", "T", "v", "pos", "le")}, "mismatch": m}
        if m["what"] == "gv-enc-bytes" and devs:
            for d in devs:
                chk.report("gv-enc-bytes:dev:" + d, {"clause": m["what"], "deviation": d, "type": sig_of(obs["T"])}, rp)
        elif m["what"] in ("gv-rt-value", "gv-rt-outcome") and isinstance(m.get("detail"), dict) and m["detail"].get("emptydrop"):
            # the value contains a container whose members are all empty: the encoder's dropped framing
            # offsets (named deviation) make the encoding ambiguous, so it cannot decode back
            chk.report("gv-rt:dev:no_offsets_when_body_empty", {"clause": m["what"], "type": sig_of(obs["T"])}, rp)
        else:
            chk.report("%s:%s" % (m["what"], sig_of(obs.get("T", {}))), {"clause": m["what"], "detail": m.get("detail")}, rp)


def run_gv(chk, pid):
    wire = core.build("wire", features=("gvariant",))
    cases = chk.path("gv_cases.ndjson")
    cfg = "gen/Gen_GVariant_quick.cfg" if chk.quick else "gen/Gen_GVariant_thorough.cfg"
    g, n = core.tlc_generate("gen/Gen_GVariant.tla", cfg, cases, timeout=3000)
    chk.add_tlc(g)
    obs = chk.path("gv_obs.ndjson")
    core.run_bin(wire, ["obs-enc", cases, obs])
    mism, lines, _ = core.tlc_validate("trace/WireCheck.tla", "trace/WireCheck.cfg", obs, shards=12, timeout=3000)
    classify_gv(chk, pid, mism["MISMATCH"], lines)
    chk.add("enumerated_cases", n)
    chk.add("traces_validated_against_impl", len(lines))
    total = list(lines)
    nr = 3000 if chk.quick else 100000
    robs = chk.path("gv_rand.ndjson")
    core.run_bin(wire, ["rand-enc", nr, chk.seed, "gvariant", robs])
    mism, lines, _ = core.tlc_validate("trace/WireCheck.tla", "trace/WireCheck.cfg", robs, shards=12, timeout=3000)
    classify_gv(chk, pid, mism["MISMATCH"], lines)
    chk.add("traces_validated_against_impl", len(lines))
    chk.add("random_cases", len(lines))
    total += lines
    return total


def run(pid, tier, replay):
    chk = core.Check(pid, "model_checking", tier)
    if replay:
        rp = json.load(open(replay))
        wire = core.build("wire", features=("gvariant",))
        case = chk.path("replay_case.ndjson")
        open(case, "w").write(json.dumps(rp["replay"]["observation"]) + "\n")
        out = chk.path("replay_obs.ndjson")
        core.run_bin(wire, ["obs-enc", case, out])
        mism, lines, _ = core.tlc_validate("trace/WireCheck.tla", "trace/WireCheck.cfg", out, shards=1)
        classify_gv(chk, pid, mism["MISMATCH"], lines)
        chk.add("traces_validated_against_impl", 1)
        chk.sample(json.loads(lines[0]))
        return chk.finish()
    total = run_gv(chk, pid)
    chk.cov["exhaustive"] = True
    chk.cov["evaluations"] = len(total)
    objs = [json.loads(x) for x in total[:100000]]
    chk.cov["distinct_nontrivial"] = core.distinct_count(
        [o for o in objs if o.get("T", {}).get("k") in ("a", "r", "v", "m")],
        lambda o: json.dumps([o.get("T"), o.get("v"), o.get("pos"), o.get("le")]))
    chk.cov["rule"] = ("TLC-enumerated GVariant type trees (Gen_GVariant: D-Bus space + maybe types) x canonical values x offsets x "
                       "endian, framing-offset threshold families (container sizes around 255/256 and, thorough, 65535/65536), plus "
                       "seeded random values; non-trivial = container / maybe / variant type")
    for o in objs[:2] + objs[-2:]:
        chk.sample({k: o.get(k) for k in ("T", "v", "pos", "le", "bytes")})
    chk.assumptions += ["fixed-width numbers are opaque byte tuples; u64<->bytes conversion in the harness is trusted",
                        "the leading alignment padding is stripped with zvariant's own alignment() before decoding back (the padding bytes themselves are compared with the specification)"]
    return chk.finish()
