"""C29 / C30: method-call dispatch of the object server against spec/Dispatch.tla.

  model check  TLC explores every interleaving of client, socket reader, dispatcher and handler tasks for
               every configuration of 2-3 calls (kinds x handler bodies x spawn flag): C29 invariants
               (no overlap, arrival order), NoLoss, deadlock freedom, and <>(every call answered) under
               fairness; each deviation switched on must produce the deadlock / lost call it stands for
  spec -> impl TLC enumerates configurations (spec/gen/Gen_Dispatch); harness/obj runs each on a fresh p2p
               pair under a directed and several seeded random schedules of a deterministic single-thread
               scheduler (handlers suspend at gates the scheduler opens)
  impl -> spec seeded random configurations + schedules (bursts of 2-6 calls, mutating handlers, on-demand
               object-server creation)
  decide       TLC validates every recorded trace against Dispatch (spec/trace/DispatchTrace.tla, silent
               internal steps) without deviations, then with each named deviation; independently TLC
               evaluates the property predicates on the events alone (MONITOR).  monitor fails + explained
               by a listed deviation -> KNOWN-FINDING; monitor fails otherwise -> VIOLATION; monitor holds
               but the specification cannot explain the trace -> MODEL-DRIFT.
"""
import hashlib
import json
import os
import time
from concurrent.futures import ThreadPoolExecutor

import core
from props.obj_tree import tlc_coverage

DEV_ORDER = ["props_hold_root", "intro_holds_root", "lazy_subscribe"]
ACTIONS = ["CreateOS", "ClientSend", "ReaderDeliver", "DispTake", "DoClientReply", "DoAcqRootR", "DoAcqIfR", "DoAnnounceIfW",
           "DoGetIfW", "DoHStart", "DoHYield", "DoHEmit", "DoHWantWrite", "DoHAnnounceW", "DoHWrote", "DoHEnd", "DoFinish"]


def show(sc):
    return {"id": sc["id"], "class": sc["class"], "spawn": sc["spawn"], "lazy": sc["lazy"],
            "calls": ["%s:%s" % (c["kind"], "".join(c["body"])) for c in sc["calls"]],
            "events": " ".join(("%s%s" % (e["e"], e["k"])) if e["e"] != "Quiescent" else "Quiescent%s" % e["pending"] for e in sc["ev"])}


def replay_obj(sc):
    return {k: sc[k] for k in ("id", "class", "spawn", "lazy", "calls", "steps")}


def model_check(chk, pid):
    t0 = time.time()
    quick = chk.quick
    # small configuration (2 calls, all kinds) with liveness, run with -coverage: vacuity guard
    cov, gen, dist = tlc_coverage("mc/MC_Dispatch.tla", "mc/MC_Dispatch_live.cfg", workers=2)
    missing = [a for a in ACTIONS if cov.get(a, 0) == 0]
    if missing:
        raise core.ToolError("vacuity: actions %s of Dispatch never taken (coverage %s)" % (missing, cov))
    chk.cov["mc_action_coverage"] = {a: cov[a] for a in ACTIONS}
    chk.add("states", dist)
    chk.add("transitions", gen)
    runs = []
    if pid == "C29":
        runs.append("mc/MC_Dispatch_c29.cfg" if quick else "mc/MC_Dispatch_c29_thorough.cfg")
    else:
        runs.append("mc/MC_Dispatch_c30.cfg" if quick else "mc/MC_Dispatch_c30_thorough.cfg")

    def one(cfg):
        r = core.tlc("mc/MC_Dispatch.tla", cfg, workers=4 if quick else 8, timeout=3000)
        if r.violation:
            raise core.ToolError("Dispatch violates its own properties in %s (specification error):\n%s" % (cfg, r.violation[:3000]))
        return r

    def dev(d):
        r = core.tlc("mc/MC_Dispatch.tla", "mc/MC_Dispatch_dev_%s.cfg" % d, workers=2, timeout=600)
        v = r.violation or ""
        want = "Invariant NoLoss is violated" if d == "lazy_subscribe" else "Deadlock reached"
        if want not in v:
            raise core.ToolError("deviation %s does not produce '%s' in the model: %s" % (d, want, (v or r.raw_tail)[-1500:]))
        return r

    with ThreadPoolExecutor(max_workers=5) as ex:
        fs = [ex.submit(one, c) for c in runs]
        # (quick tier: the deviations are exercised by the trace validation below, which needs them to explain
        # the recorded hangs; the model-level demonstration runs in the thorough tier)
        ds = [ex.submit(dev, d) for d in (DEV_ORDER if pid == "C30" and not quick else [])]
        for f in fs:
            chk.add_tlc(f.result())
        for f in ds:
            f.result()
    if ds:
        chk.cov["mc_deviation_models_fail_as_expected"] = DEV_ORDER
    core.log("[%s] model checking %.1fs" % (pid, time.time() - t0))


def validate(chk, path, cfg, shards, workers):
    """DispatchTrace over one trace file (one scenario per line).  Returns (accepted ids, monitor by id, TLC results)."""
    with open(path) as f:
        lines = [x for x in f.read().split("\n") if x.strip()]
    if not lines:
        return set(), {}, []
    shards = max(1, min(shards, (len(lines) + 49) // 50))
    # interleave so that the expensive scenarios (many calls) spread over the shards
    parts = [lines[i::shards] for i in range(shards)]
    paths = []
    for i, chunk in enumerate(parts):
        p = "%s.%s.s%d" % (path, os.path.basename(cfg), i)
        with open(p, "w") as f:
            f.write("\n".join(chunk) + "\n")
        paths.append(p)

    def one(p):
        r = core.tlc("trace/DispatchTrace.tla", cfg, env={"TRACE": p}, workers=workers, timeout=3000, heap="3g")
        if r.violation:
            raise core.ToolError("DispatchTrace failed on %s:\n%s" % (p, r.violation[:3000]))
        return r

    with ThreadPoolExecutor(max_workers=len(paths)) as ex:
        rs = list(ex.map(one, paths))
    done, mon = set(), {}
    for r in rs:
        done |= {d["id"] for d in r.emits.get("DONE", [])}
        for m in r.emits.get("MONITOR", []):
            mon[m["id"]] = m
    for p in paths:
        os.unlink(p)
    return done, mon, rs


def decide(chk, pid, path, shards=4, workers=3):
    """Validate a trace file and turn the outcome into verdicts.  Returns (scenarios, accepted-or-explained count, drift)."""
    scen = {}
    for line in open(path):
        if line.strip():
            o = json.loads(line)
            scen[o["id"]] = o
    done, mon, rs = validate(chk, path, "trace/DispatchTrace_none.cfg", shards, workers)
    for r in rs:
        chk.add("trace_states", r.distinct)
    if set(mon) != set(scen):
        raise core.ToolError("DispatchTrace evaluated the monitor on %d of %d scenarios of %s" % (len(mon), len(scen), path))
    rejected = sorted(set(scen) - done)
    explained = {}
    if rejected:
        sub = path + ".rejected"
        with open(sub, "w") as f:
            for i in rejected:
                f.write(json.dumps(scen[i]) + "\n")

        def dev(d, f=sub):
            return d, validate(chk, f, "trace/DispatchTrace_%s.cfg" % d, 1, 3)[0]
        with ThreadPoolExecutor(max_workers=3) as ex:
            for d, acc in ex.map(dev, DEV_ORDER):
                for i in acc:
                    explained.setdefault(i, []).append(d)
        rest = [i for i in rejected if i not in explained]
        if rest:
            # not explained by any single deviation: try all of them together
            sub2 = path + ".rejected2"
            with open(sub2, "w") as f:
                for i in rest:
                    f.write(json.dumps(scen[i]) + "\n")
            for i in dev("all", sub2)[1]:
                explained.setdefault(i, []).append("all")
    ok = len(done)
    drift = 0
    for i, sc in scen.items():
        m = mon[i]
        # C29: order / no overlap (spawn disabled) and every call answered; C30: every call answered
        good = m["answered"] and (m["ordered"] or pid == "C30")
        if good and i in done:
            continue
        what = {"monitor": {"answered": m["answered"], "ordered": m["ordered"]}, "scenario": show(sc)}
        if good:
            # the property holds on this run but the specification cannot explain the trace
            drift += 1
            core.log("MODEL-DRIFT property=%s scenario %s: trace not a behaviour of Dispatch, property predicates hold: %s" % (
                pid, i, json.dumps(show(sc))[:600]))
            if len(chk.notes) < 10:
                chk.notes.append("MODEL-DRIFT %s" % json.dumps(show(sc))[:400])
            continue
        devs = [d for d in DEV_ORDER if d in explained.get(i, [])]
        if pid == "C29" and not m["ordered"]:
            key = "order:%s" % ("spawn" if sc["spawn"] else "nospawn")
        elif devs:
            key = devs[0]
            ok += 1
        elif "all" in explained.get(i, []):
            key = "combination-of-deviations"
            ok += 1
        else:
            pend = sorted({sc["calls"][k - 1]["kind"] for k in sc["ev"][-1].get("pending", [])})
            key = "unanswered:%s:lazy%d:%s" % ("spawn" if sc["spawn"] else "nospawn", sc["lazy"], "+".join(pend) or "none")
        what["explained_by"] = explained.get(i, [])
        chk.report(key, what, replay_obj(sc))
    return scen, ok, drift


def run(pid, tier, replay):
    chk = core.Check(pid, "model_checking", tier)
    obj = core.build("obj")
    if replay:
        return do_replay(chk, pid, obj, replay)
    quick = chk.quick
    t_all = time.time()

    def enum_phase():
        t0 = time.time()
        names = ["c29"] if pid == "C29" else ["c30", "lazy"]

        def gen(name):
            part = chk.path("gen_%s.ndjson" % name)
            cfg = "gen/Gen_Dispatch_lazy.cfg" if name == "lazy" else "gen/Gen_Dispatch_%s_%s.cfg" % (name, "quick" if quick else "thorough")
            g, n = core.tlc_generate("gen/Gen_Dispatch.tla", cfg, part, timeout=3000, workers=2)
            return part, g, n
        with ThreadPoolExecutor(max_workers=2) as ex:
            parts = list(ex.map(gen, names))
        cases = chk.path("cases.ndjson")
        ncfg = 0
        with open(cases, "w") as out:
            for part, g, n in parts:
                for line in open(part):
                    c = json.loads(line)
                    c["id"] = ncfg
                    ncfg += 1
                    out.write(json.dumps(c) + "\n")
        obs = chk.path("obs_enum.ndjson")
        core.run_bin(obj, ["disp-replay", cases, (4 if pid == "C29" else 3) if quick else 10, chk.seed, obs])
        core.log("[%s] %d configurations generated and run in %.1fs" % (pid, ncfg, time.time() - t0))
        return parts, ncfg, obs

    def rand_phase():
        classes = [("burst", 400 if quick else 6000)] if pid == "C29" else [("mutate", 300 if quick else 4000), ("lazy", 120 if quick else 600)]
        robs = chk.path("obs_rand.ndjson")
        with open(robs, "w") as f:
            for cls, n in classes:
                p = chk.path("obs_rand_%s.ndjson" % cls)
                core.run_bin(obj, ["disp-rand", cls, n, chk.seed, p])
                f.write(open(p).read())
        return robs

    with ThreadPoolExecutor(max_workers=3) as ex:
        f_mc = ex.submit(model_check, chk, pid)
        f_en = ex.submit(enum_phase)
        robs = rand_phase()
        parts, ncfg, obs = f_en.result()
        # one validation pass over all recorded traces (scenario ids are disjoint)
        t0 = time.time()
        allobs = chk.path("obs_all.ndjson")
        with open(allobs, "w") as f:
            f.write(open(obs).read())
            f.write(open(robs).read())
        total, ok, drift = decide(chk, pid, allobs, shards=2 if quick else 10, workers=4)
        core.log("[%s] %d traces validated in %.1fs" % (pid, len(total), time.time() - t0))
        f_mc.result()
    n_enum = sum(1 for i in total if i < 1000000)
    for _, g, _ in parts:
        chk.add_tlc(g)
    chk.add("enumerated_configurations", ncfg)
    chk.add("enumerated_cases", n_enum)
    chk.add("random_cases", len(total) - n_enum)
    chk.cov["exhaustive"] = False
    chk.add("traces_validated_against_impl", ok)
    chk.cov["model_drift_scenarios"] = drift
    chk.cov["scenarios_with_busy_wait"] = sum(1 for s in total.values() if s.get("spun"))
    chk.cov["evaluations"] = sum(len(s["ev"]) for s in total.values())
    chk.cov["distinct_nontrivial"] = len({hashlib.sha1(json.dumps([s["spawn"], s["lazy"], s["calls"], s["ev"]]).encode()).digest()
                                          for s in total.values() if len(s["calls"]) >= 2 or s["lazy"]})
    chk.cov["rule"] = ("scenario = configuration (spawn flag, calls with kind and handler body, bring-up) x schedule, run on a fresh p2p pair "
                       "under the deterministic scheduler; evaluations = recorded events bound to Dispatch actions by TLC; distinct by "
                       "(configuration, event sequence); non-trivial = at least two calls, or a call right after on-demand creation")
    ids = sorted(total)
    for i in (ids[len(ids) // 4], ids[len(ids) // 2], ids[-1]):
        chk.sample(show(total[i]))
    if chk.cov["scenarios_with_busy_wait"]:
        chk.notes.append("%d scenarios needed the scheduler's spin cut-off: tasks waiting in async-lock RwLock::read() behind a suspended "
                         "writer keep re-notifying each other (busy wait in the dependency, no effect on ordering or replies)" %
                         chk.cov["scenarios_with_busy_wait"])
    chk.assumptions += [
        "one target interface at one path; handler bodies are sequences of yield / emit / object-server mutation",
        "schedules are those of a single-threaded deterministic scheduler (every task switch is at an await point); "
        "real multi-threaded executors add no interleavings at a finer grain for these properties' observables",
        "quiescence (no runnable task, all gates open) with an unanswered call is the observable form of a hang; no wall clock is used",
        "TLC evaluates Dispatch.tla correctly; the harness event sink is written from one thread",
    ]
    core.log("[%s] total %.1fs" % (pid, time.time() - t_all))
    return chk.finish()


def do_replay(chk, pid, obj, path):
    with open(path) as f:
        rp = json.load(f)
    case = chk.path("replay_case.ndjson")
    with open(case, "w") as f:
        f.write(json.dumps(rp["replay"]) + "\n")
    obs = chk.path("replay_obs.ndjson")
    core.run_bin(obj, ["disp-replay", case, 1, chk.seed, obs])
    scen, ok, drift = decide(chk, pid, obs, shards=1, workers=2)
    chk.add("traces_validated_against_impl", ok)
    chk.cov["evaluations"] = sum(len(s["ev"]) for s in scen.values())
    for s in scen.values():
        chk.sample(show(s))
    return chk.finish()
