"""C08: dynamic values obey equality, ordering, hashing and conversion laws.

Pipeline
  observe <- harness/gram `laws` draws (VERIF_SEED) pools of 12 zvariant::Value from families of related values
             (NaN with several payloads, +0.0 / -0.0, equal values built differently, empty and nested
             containers, file descriptors) and logs, per pool, the full == and cmp matrices, hash classes,
             value_signature vs the signature found in the encoded variant, try_clone / try_to_owned /
             OwnedValue round trip / try_into_owned results and T -> Value -> T conversions of std types
  decide  <- TLC evaluates every law of spec/ValueLaws.tla on every table (spec/trace/LawsCheck.tla)
  sanity  <- TLC model-checks (spec/mc/MC_ValueLaws) that the order laws are exactly "the table is induced by a
             ranking": satisfiable, and violated by every single corrupted entry
"""
import json
import time

import core
from props.gram_sig import load_own_findings

LAWS = {"eq-reflexive", "eq-symmetric", "eq-transitive", "cmp-total", "cmp-antisymmetric", "cmp-transitive",
        "cmp-eq-consistent", "hash-eq-consistent", "signature-encoded", "clone-preserves", "to-owned-preserves",
        "owned-value-roundtrip", "into-owned-preserves", "std-roundtrip", "constructible"}


def classify(chk, mism, lines, seed):
    """MISMATCH records -> verdict keys:
         dev:nan:<law>      counterexamples that involve a value containing a NaN (named deviation of LawsCheck)
         <law>:<witness>    anything else"""
    seen = {}
    for m in mism:
        law = m.get("what")
        if law not in LAWS:
            raise core.ToolError("validator reported an unknown law: %s" % json.dumps(m)[:500])
        table = json.loads(lines[m["line"] - 1])
        replay = {"seed": seed, "table_id": table["id"], "table": table, "mismatch": m}
        what = {"law": law, "witness_indexes": m["witness"], "values": m["values"], "counterexamples_in_table": m["count"]}
        if m.get("dev"):
            chk.report("dev:%s:%s" % (m["dev"], law), what, replay)
        else:
            # keep the first few witnesses per law (one replay file each)
            seen[law] = seen.get(law, 0) + 1
            if seen[law] <= 6:
                chk.report("%s:%s" % (law, "|".join(str(v)[:60] for v in m["values"])), what, replay)
    for law, n in sorted(seen.items()):
        if n > 6:
            chk.notes.append("law %s: %d failing tables, the first 6 reported" % (law, n))


def validate_parts(obs, parts):
    """core.tlc_validate only shards files of more than 200 lines; a table costs TLC ~0.1 s (the transitivity laws
    range over 12^3 index triples), so split the file here and validate the parts concurrently."""
    from concurrent.futures import ThreadPoolExecutor
    with open(obs) as f:
        lines = [x for x in f.read().split("\n") if x.strip()]
    parts = max(1, min(parts, len(lines)))
    per = (len(lines) + parts - 1) // parts
    jobs = []
    for i in range(parts):
        chunk = lines[i * per:(i + 1) * per]
        if chunk:
            p = "%s.part%d" % (obs, i)
            with open(p, "w") as f:
                f.write("\n".join(chunk) + "\n")
            jobs.append((p, i * per))

    def one(job):
        p, off = job
        m, ls, rs = core.tlc_validate("trace/LawsCheck.tla", "trace/LawsCheck.cfg", p, shards=1, timeout=3000)
        for rec in m["MISMATCH"]:
            rec["line"] += off
        return m["MISMATCH"], rs

    with ThreadPoolExecutor(max_workers=len(jobs)) as ex:
        results = list(ex.map(one, jobs))
    import os
    for p, _ in jobs:
        os.unlink(p)
    return {"MISMATCH": [m for ms, _ in results for m in ms]}, lines, [r for _, rs in results for r in rs]


def model_check(chk):
    r = core.tlc("mc/MC_ValueLaws.tla", "mc/MC_ValueLaws.cfg", workers=4, timeout=1200)
    if r.violation:
        raise core.ToolError("MC_ValueLaws: the laws are not characterised by rankings:\n%s" % r.violation[:3000])
    # 5 184 two-value tables + the tables induced on three values and all their single-entry mutations
    if r.distinct < 5184 + 27 or r.generated <= r.distinct:
        raise core.ToolError("MC_ValueLaws explored only %d states (vacuous)" % r.distinct)
    chk.add_tlc(r)
    chk.cov["mc_states"] = r.distinct


def run(pid, tier, replay):
    chk = core.Check(pid, "model_checking", tier)
    load_own_findings(chk, pid)
    gram = core.build("gram")
    t0 = time.time()
    seed = chk.seed
    ntables = 200 if chk.quick else 5000
    only = None
    if replay:
        with open(replay) as f:
            rp = json.load(f)["replay"]
        seed, only = rp["seed"], rp["table_id"]
        ntables = only + 1
    else:
        model_check(chk)
        core.log("[%s] model check of the laws      %.1fs" % (pid, time.time() - t0))
    obs = chk.path("tables.ndjson")
    core.run_bin(gram, ["laws", ntables, seed, obs])
    if only is not None:   # the stored table is regenerated from its seed and index by the real code
        with open(obs) as f:
            keep = [x for x in f if json.loads(x)["id"] == only]
        with open(obs, "w") as f:
            f.writelines(keep)
    t1 = time.time()
    mism, lines, rs = validate_parts(obs, 6 if chk.quick else 14)
    for r in rs:
        chk.add_tlc(r)
    core.log("[%s] TLC validation               %.1fs" % (pid, time.time() - t1))
    classify(chk, mism["MISMATCH"], lines, seed)
    tables = [json.loads(x) for x in lines]
    nvals = sum(t["n"] for t in tables)
    chk.add("traces_validated_against_impl", len(tables))
    chk.cov["tables"] = len(tables)
    chk.cov["values"] = nvals
    chk.cov["pairs_compared"] = sum(t["n"] ** 2 for t in tables)
    chk.cov["std_roundtrips"] = sum(len(t["std"]) for t in tables)
    # one evaluation = one law on one table
    chk.cov["evaluations"] = len(tables) * len(LAWS)
    distinct = set()
    nontrivial = set()
    for t in tables:
        for d, s, n in zip(t["dbg"], t["vsig"], t["nan"]):
            distinct.add(d)
            if s[:1] in "a(v" or n:
                nontrivial.add(d)
    chk.cov["distinct_values"] = len(distinct)
    chk.cov["distinct_nontrivial"] = len(nontrivial)
    chk.cov["rule"] = ("distinct values by Debug text over all tables; non-trivial = a container or variant value, or a value "
                       "containing a NaN; a table relates 12 such values pairwise (144 == / cmp answers)")
    chk.cov["tables_with_nan"] = sum(1 for t in tables if any(t["nan"]))
    chk.cov["tables_with_equal_pairs"] = sum(1 for t in tables if any(t["eq"][i][j] == 1 for i in range(t["n"]) for j in range(i)))
    for t in tables[:3]:
        chk.sample({"id": t["id"], "values": [d[:70] for d in t["dbg"][:4]], "vsig": t["vsig"][:4], "eq_row1": t["eq"][0],
                    "cmp_row1": t["cmp"][0], "hash": t["hash"]})
    chk.assumptions += [
        "TLC evaluates ValueLaws.tla correctly",
        "the harness records the answers of ==, cmp, Hash (std DefaultHasher), value_signature, to_bytes and the conversions "
        "faithfully (harness/gram/src/laws.rs)",
        "equality of copies is not demanded for values holding file descriptors (an owned copy is another descriptor number)",
    ]
    chk.notes.append("laws are universally quantified over each table; the pools are a seeded sample of the value space "
                     "(families of related values and containers around them), not an enumeration")
    return chk.finish()
