"""C09: derived and built-in Type signatures match what is serialized (spec/TypeShapes.tla + DBusWire.tla)."""
import json
import os

import core
import tygen


def run(pid, tier, replay):
    chk = core.Check(pid, "translation_validation", tier)
    level = 1 if chk.quick or replay else 2
    shapes = chk.path("shapes.ndjson")
    g, n = core.tlc_generate("gen/Gen_TypeShapes.tla", "gen/Gen_TypeShapes_%d.cfg" % level, shapes, timeout=1200)
    chk.add_tlc(g)
    src, exps = tygen.generate(shapes)
    gpath = os.path.join(core.HARNESS, "tygen", "src", "generated_l%d.rs" % level)
    if not os.path.exists(gpath) or open(gpath).read() != src:
        # the committed copy is stale w.r.t. the generator specification: refresh it (cargo rebuilds the crate)
        with open(gpath, "w") as f:
            f.write(src)
        chk.notes.append("generated_l%d.rs refreshed from Gen_TypeShapes" % level)
    binp = core.build("tygen", features=("l2",) if level == 2 else ())
    raw = chk.path("obs_raw.ndjson")
    core.run_bin(binp, [raw], timeout=1200)
    by_id = {e["id"]: e for e in exps}
    obs = chk.path("obs.ndjson")
    nobs = 0
    with open(obs, "w") as f:
        for line in open(raw):
            o = json.loads(line)
            e = by_id[o["id"]]
            o.update({"shape": e["shape"], "exp_sig": e["exp_sig"], "exp_v": e["exp_v"]})
            o.setdefault("size_ok", False)
            f.write(json.dumps(o) + "\n")
            nobs += 1
    if nobs != n:
        raise core.ToolError("generated program reported %d of %d types" % (nobs, n))
    mism, lines, _ = core.tlc_validate("trace/TypeCheck.tla", "trace/TypeCheck.cfg", obs, shards=8, timeout=1800)
    for m in mism["MISMATCH"]:
        o = json.loads(lines[m["line"] - 1])
        if m["what"] == "spec-selfcheck":
            raise core.ToolError("generator and TypeShapes.tla disagree: %s" % json.dumps(m)[:500])
        key = "%s:%s" % (m["what"], shape_class(o["shape"]))
        chk.report(key, {"clause": m["what"], "shape": o["shape"], "detail": m.get("detail")}, {"shape": o["shape"], "observation": o})
    chk.cov["programs"] = n
    chk.cov["disagreements_checked"] = n * 5
    chk.cov["exhaustive"] = True
    chk.add("traces_validated_against_impl", n)
    chk.cov["evaluations"] = n
    chk.cov["distinct_nontrivial"] = sum(1 for e in exps if e["shape"]["c"] not in tygen.LEAF)
    chk.cov["rule"] = ("program = one generated Rust type definition (derive(Type, Serialize, Deserialize) structs, tuple structs, newtypes, unit / "
                       "data enums, dict structs, and std impls) of the TLC-enumerated shape space level %d, with one value; checked per program: declared "
                       "signature, bytes conform to it, bytes denote the expected value, typed round trip, size; non-trivial = not a bare leaf type") % level
    for e in exps[:2] + exps[-2:]:
        chk.sample({"shape": e["shape"], "expected_signature": bytes(e["exp_sig"]).decode()})
    chk.assumptions += ["lib/tygen.py maps shapes to Rust source and to the abstract value faithfully (a disagreement would show as a mismatch, not hide one)",
                        "one value per type; Option<T> (option-as-array build) and the optional-crate impls (uuid, url, time, chrono, heapless) are not generated"]
    return chk.finish()


def shape_class(s):
    c = s["c"]
    if c in ("vec", "newtype"):
        return c + "<" + shape_class(s["e"]) + ">"
    if c == "dataenum":
        return "dataenum:" + s.get("vk", "newtype") + "<" + shape_class(s["e"]) + ">"
    if c == "map":
        return "map<" + s["k"]["c"] + "," + shape_class(s["v"]) + ">"
    if c in ("tuple", "struct", "tstruct", "dict"):
        return c + "(" + ",".join(shape_class(f) for f in s["f"]) + ")"
    if c == "unitenum":
        return "unitenum:" + s["repr"]
    return c
