"""C15: serial numbers never zero, never repeated (spec/Serial.tla)."""
import json

import core


def run(pid, tier, replay):
    chk = core.Check(pid, "model_checking", tier)
    bus = core.build("bus")
    if not replay:
        r = core.tlc("mc/MC_Serial.tla", "mc/MC_Serial.cfg", workers=6, coverage=True, timeout=1200)
        if r.violation:
            raise core.ToolError("MC_Serial violates its invariants:\n" + r.violation[:2000])
        if r.coverage.get("Fetch", 0) == 0 or r.coverage.get("Build", 0) == 0:
            raise core.ToolError("MC_Serial: vacuous")
        chk.add_tlc(r)
        m = core.tlc("mc/MC_Serial.tla", "mc/MC_Serial_mutant.cfg", workers=4, timeout=600)
        if not m.violation or "Invariant" not in m.violation:
            raise core.ToolError("MC_Serial: the non-atomic mutant was not rejected (vacuous invariants)")
        chk.cov["mutant_models_rejected"] = ["mc/MC_Serial_mutant.cfg"]
    # conformance: real threads around the wrap and the zero skip, counter preset through the cfg(zbus_verif) hook
    runs = []
    per = 2000 if chk.quick else 6000
    threads = 8 if chk.quick else 16
    starts = [0, 1, 2**32 - 1, 2**32 - 2, 2**32 - per, 2**32 - 3 * per, 2**31, 12345]
    if replay:
        rp = json.load(open(replay))
        starts = [rp["replay"]["start"]]
    out = chk.path("serials.ndjson")
    with open(out, "w") as f:
        for i, st in enumerate(starts * (1 if chk.quick else 2)):
            tmp = chk.path("s%d.ndjson" % i)
            core.run_bin(bus, ["serial", tmp, threads, per, st % 2**32])
            o = json.loads(open(tmp).read())
            o["id"] = i
            f.write(json.dumps(o) + "\n")
            runs.append(st)
    # many short races around 0 / the wrap in one process: the window of a non-atomic zero skip is a few instructions wide
    rounds = 4000 if chk.quick else 30000
    if not replay:
        rp_out = chk.path("rounds.ndjson")
        core.run_bin(bus, ["serial-rounds", rp_out, threads, 3, rounds], timeout=3000)
        with open(out, "a") as f:
            for i, line in enumerate(open(rp_out)):
                o = json.loads(line)
                o["id"] = 1000 + i
                f.write(json.dumps(o) + "\n")
        chk.cov["race_rounds"] = rounds
    mism, lines, _ = core.tlc_validate("trace/SerialCheck.tla", "trace/SerialCheck.cfg", out, shards=8, timeout=3000)
    for mm in mism["MISMATCH"]:
        o = json.loads(lines[mm["line"] - 1])
        st = o["start_hi"] * 65536 + o["start_lo"]
        chk.report(mm["what"], {"clause": mm["what"], "detail": mm["detail"], "start": st}, {"start": st, "threads": threads, "per": per})
    chk.add("traces_validated_against_impl", len(lines))
    chk.cov["evaluations"] = len(runs) * threads * per + (len(lines) - len(runs)) * threads * 3
    chk.cov["distinct_nontrivial"] = len(set(runs))
    chk.cov["rule"] = ("one run = %d threads x %d messages built concurrently after presetting the process-wide counter; distinct by start value; "
                       "start values straddle 0 and the 2^32 wrap") % (threads, per)
    chk.sample({"start_values": [s % 2**32 for s in runs[:8]], "threads": threads, "per_thread": per})
    chk.assumptions += ["real-thread interleavings are sampled (not controlled); exhaustiveness over interleavings is in the TLC model (counter modulo 8)",
                        "requires the cfg(zbus_verif) hook zbus::message::verif_set_serial_counter"]
    return chk.finish()
