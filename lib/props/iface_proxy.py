"""C33: generated proxies and interfaces agree on the wire.

  program    TLC-generated interface shapes; lib/iface_codegen.py emits for every shape the #[zbus::interface] impl AND the
             #[zbus::proxy] trait (async + blocking proxies) from the same shape
  observe    harness/iface `proxy`: every method, property and signal of every interface is exercised through the
             generated proxy with seeded random argument values -- the async proxies under the deterministic
             single-threaded loop, the blocking proxies with real threads (internal executors)
  decide     TLC evaluates spec/trace/RpcTrace.tla (predicates ProxyCallOk / ProxySignalOk of spec/Rpc.tla) on every line:
             arguments seen by the handler = arguments passed, value returned = handler's result (or its error),
             property get = server value, property set changes the server value, one stream item per emitted signal
             with equal arguments.  Raw correct calls (TLC-enumerated) add the handler-argument fidelity clause.
"""
import json

import core
from props import iface_rpc as common

ROUNDS = {"quick": 10, "thorough": 100}


def observe(chk, prog, batch, rounds):
    outs = []
    for mode in ("async", "blocking"):
        p = chk.path("proxy_%s_%d.ndjson" % (mode, batch))
        core.run_bin(prog.binary, ["proxy", prog.trees_path, prog.shapes_path, mode, chk.seed, rounds, p], timeout=1500)
        outs.append(p)
    # raw correct calls: what the handler receives is what was sent
    cases, _ = common.gen_calls(chk, prog, batch)
    right = chk.path("cases_right_%d.ndjson" % batch)
    with open(cases) as f, open(right, "w") as g:
        for line in f:
            if json.loads(line)["cls"] == "right":
                g.write(line)
    outs.append(common.observe_calls(chk, prog, right, batch, "c33_rpc"))
    allp = chk.path("c33_obs_%d.ndjson" % batch)
    n = 0
    with open(allp, "w") as g:
        for p in outs:
            for line in open(p):
                o = json.loads(line)
                o["id"] = n
                o.setdefault("tid", 0)
                g.write(json.dumps(o) + "\n")
                n += 1
    return allp


def classify(chk, prog, mism, lines):
    for m in mism:
        what = m["what"]
        if what.startswith("harness-"):
            raise core.ToolError("harness inconsistency: %s / %s" % (json.dumps(m)[:500], lines[m["line"] - 1][:800]))
        if not what.startswith("c33-"):
            continue   # C26 clauses of the raw calls are C26's business
        o = json.loads(lines[m["line"] - 1])
        d = m.get("detail") if isinstance(m.get("detail"), dict) else {}
        replay = {"kind": "proxy", "tier": chk.tier, "niface": prog.niface, "shape_seed": prog.seed, "seed": chk.seed,
                  "observation": o, "mismatch": m}
        sh = prog.shape(o["iface"] if isinstance(o.get("iface"), int) else o["case"]["iface"])
        member = o.get("member") or o.get("prop") or o.get("signal") or o.get("case", {}).get("method")
        sig = member_sig(sh, o, member)
        chk.report("%s:%s:%s" % (what, o.get("mode", "raw"), sig), {"clause": what, "detail": d, "interface": sh["name"], "member": member}, replay)


def sig_of(t):
    k = t["k"]
    if k == "a":
        return "a" + sig_of(t["e"])
    if k == "e":
        return "{" + sig_of(t["key"]) + sig_of(t["val"]) + "}"
    if k == "r":
        return "(" + "".join(sig_of(f) for f in t["f"]) + ")"
    return k


def member_sig(sh, o, member):
    """Class of the failing input: the D-Bus types involved."""
    if o["ev"] in ("PCall", "Call"):
        for m in sh["methods"]:
            if m["name"] == member:
                return "%s->%s:%s" % ("".join(sig_of(t) for t in m["ins"]), m["out"]["kind"], "".join(sig_of(t) for t in m["out"]["ts"]))
    if o["ev"] in ("PGet", "PSet"):
        for p in sh["props"]:
            if p["name"] == member:
                return sig_of(p["ty"])
    if o["ev"] == "PSignal":
        for g in sh["signals"]:
            if g["name"] == member:
                return "".join(sig_of(t) for t in g["args"])
    return "?"


def run(pid, tier, replay):
    chk = core.Check(pid, "translation_validation", tier)
    if replay:
        return do_replay(chk, replay)
    objs = []
    for b in range(common.TIERS[chk.tier]["batches"]):
        prog = common.make_program(chk, b)
        allp = observe(chk, prog, b, ROUNDS[chk.tier])
        mism, lines = common.validate(chk, prog, allp)
        classify(chk, prog, mism, lines)
        chk.add("programs", len(prog.shapes))
        chk.add("proxy_methods", sum(len(s["methods"]) for s in prog.shapes))
        chk.add("proxy_properties", sum(len(s["props"]) for s in prog.shapes))
        chk.add("proxy_signals", sum(len(s["signals"]) for s in prog.shapes))
        chk.add("traces_validated_against_impl", len(lines))
        objs += [json.loads(x) for x in lines]
    ncached = cached_reads(chk)
    chk.cov["disagreements_checked"] = len(objs)
    chk.cov["evaluations"] = len(objs) + ncached
    for mode in ("async", "blocking"):
        for ev in ("PCall", "PGet", "PSet", "PSignal"):
            chk.cov["%s_%s" % (mode, ev)] = sum(1 for o in objs if o.get("mode") == mode and o["ev"] == ev)
    chk.cov["raw_calls"] = sum(1 for o in objs if o["ev"] == "Call")
    chk.cov["handler_errors_returned"] = sum(1 for o in objs if o["ev"] == "PCall" and o["ret"]["kind"] == "err")
    chk.cov["distinct_nontrivial"] = core.distinct_count(
        [o for o in objs if o["ev"] != "Call" and (o.get("args") or o.get("value") or o["ev"] == "PGet")],
        lambda o: json.dumps([o["ev"], o.get("mode"), o["iface"], o.get("member"), o.get("prop"), o.get("signal"), o.get("args"), o.get("value")], sort_keys=True))
    chk.cov["rule"] = ("one evaluation per proxy operation (method call / property get / property set / signal round trip) per mode, "
                       "plus TLC-enumerated raw correct calls; distinct by (operation, mode, member, argument values); non-trivial = "
                       "operations that carry at least one value")
    seen = set()
    for o in objs:
        if o["ev"] in ("PCall", "PSet", "PSignal", "PGet") and (o["ev"], o.get("mode")) not in seen and len(seen) < 5:
            seen.add((o["ev"], o.get("mode")))
            chk.sample({k: o[k] for k in ("ev", "mode", "iface", "member", "prop", "signal", "args", "value", "ret", "items") if k in o})
    chk.assumptions += [
        "interface and proxy source are rendered from the same TLC-emitted shape by lib/iface_codegen.py (owned Rust types on both sides)",
        "the generated proxies are built with CacheProperties::No, so their property reads go to the server; reads through a caching proxy "
        "(the default) are judged by the PropCache specification on TLC-enumerated received histories (cached_reads), as in C31",
        "blocking proxies run with real threads and are only trace-validated; a 600 s watchdog turns a hang into a tool failure",
        "random argument values come from the harness PRNG seeded with VERIF_SEED",
    ]
    return chk.finish()


def cached_reads(chk):
    """Property reads through a *caching* proxy (the default): what such a read returns is decided by spec/PropCache.tla
    (the fold of the received history; other interfaces on the same path, other objects and strangers never count).
    Cases, replay and validator are those of C31 (quick configuration); a disagreement is a C33 violation because the
    proxy then does not report the server's value."""
    from props import proxy_cache as pc, proxy_owner as po
    binary = core.build("proxy")
    cases_path = chk.path("cached_cases.ndjson")
    g, n = core.tlc_generate("gen/Gen_PropCache.tla", "gen/Gen_PropCache_quick.cfg", cases_path, timeout=3000, workers=4)
    chk.add_tlc(g)
    obs_path = chk.path("cached_obs.ndjson")
    po.run_sharded(binary, "c31", cases_path, obs_path, procs=4)
    cases = po.load_cases(cases_path)
    out, lines, _ = core.tlc_validate("trace/PropCacheTrace.tla", "trace/PropCacheTrace.cfg", obs_path, shards=6, timeout=3000, env=po.FAST_JVM)
    po.classify(chk, "C33", out["MISMATCH"], lines, cases, lambda m, obs: "c33-cached-read:" + pc.key_cache(m, obs))
    chk.add("cached_read_histories", len(lines))
    chk.add("traces_validated_against_impl", len(lines))
    return len(lines)


def _cached_validate(chk, obs_path, cases, shards):
    from props import proxy_cache as pc, proxy_owner as po
    out, lines, _ = core.tlc_validate("trace/PropCacheTrace.tla", "trace/PropCacheTrace.cfg", obs_path, shards=shards, timeout=3000, env=po.FAST_JVM)
    po.classify(chk, "C33", out["MISMATCH"], lines, cases, lambda m, obs: "c33-cached-read:" + pc.key_cache(m, obs))
    return lines


def do_replay(chk, path):
    with open(path) as f:
        rp = json.load(f)["replay"]
    if "case" in rp and "kind" not in rp:
        # a cached-read history (C31's machinery)
        from props import proxy_cache as pc, proxy_owner as po
        return po.do_replay(chk, "C33", core.build("proxy"), path, "c31",
                            lambda c, pid, obs_path, cases, shards: _cached_validate(c, obs_path, cases, shards))
    chk.seed = rp.get("seed", chk.seed)
    prog = common.make_program(chk, 0, niface=rp["niface"], seed=rp["shape_seed"], ntree=1)
    allp = observe(chk, prog, 0, ROUNDS[rp.get("tier", "quick")])
    want = rp["observation"]
    keep = chk.path("replay_obs.ndjson")
    with open(allp) as f, open(keep, "w") as g:
        for line in f:
            o = json.loads(line)
            if all(o.get(k) == want.get(k) for k in ("ev", "mode", "iface", "member", "prop", "signal")) and \
                    (o["ev"] != "Call" or o["case"] == want["case"]):
                g.write(line)
    mism, lines = common.validate(chk, prog, keep, shards=1)
    classify(chk, prog, mism, lines)
    chk.add("traces_validated_against_impl", len(lines))
    chk.cov["evaluations"] = len(lines)
    chk.sample(json.loads(lines[0]))
    return chk.finish()
