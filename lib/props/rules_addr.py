"""C23: D-Bus addresses round-trip through their string form; parsing percent-decodes every value (spec/AddrCodec.tla).

  cases   <- TLC enumerates address values (spec/gen/Gen_Addr.tla, run as mc/MC_AddrCodec so the specification's own
             laws are checked over the same universe); the harness draws random values over all byte values and random
             valid address strings (random key order, random optional escapes, either hex case)
  observe <- harness/rules: build through zbus::Address / Transport constructors, to_string(), Address::from_str, ==,
             parsed fields through the getters (paths as bytes)
  decide  <- TLC evaluates spec/trace/AddrCheck.tla: AddrCodec!Denote on the produced / given string against the fields.
"""
import json

import core
from props import rules_match as rm


def classify(chk, mism, lines):
    rm.tool_clauses(mism, lines)
    for m in mism:
        obs = json.loads(lines[m["line"] - 1])
        d = m.get("detail") if isinstance(m.get("detail"), dict) else {}
        dev = d.get("dev", "none")
        if dev != "none":
            key = "%s:%s" % (dev, m["what"])
        else:
            key = "%s:unexplained:%s" % (m["what"], d.get("transport", "?"))
        what = {"clause": m["what"], "detail": rm.text(d), "address": rm.text(obs.get("addr") or obs.get("meant")),
                "string": obs.get("text")}
        chk.report(key, what, {"observation": obs, "mismatch": m})


def needs_escape(o):
    def esc(v):
        return isinstance(v, list) and any(isinstance(b, int) and not (chr(b).isalnum() and b < 128 or chr(b) in "-_/.\\*") for b in v)
    a = o.get("addr") or o.get("meant") or {}
    return any(esc(v) or (isinstance(v, list) and any(esc(x) for x in v if isinstance(x, list))) for v in a.values()) \
        or (o["ev"] == "ParseStr" and "%" in o.get("text", ""))


def run(pid, tier, replay):
    chk = core.Check(pid, "model_checking", tier)
    rm.local_known(chk, ["C23"])
    feats = () if chk.quick else ("vsock",)
    binp = rm.build("rules", features=feats)
    if replay:
        return do_replay(chk, binp, replay)
    rm.stage(chk, "start")
    quick = chk.quick
    # one TLC run: laws of the codec (escape/unescape inverse, Denote(Fmt(a)) = a, scope of the deviations) + cases
    rm.stage(chk, "build")
    cases = chk.path("cases.ndjson")
    g, n = core.tlc_generate("mc/MC_AddrCodec.tla", "mc/MC_AddrCodec_gen_%s.cfg" % ("quick" if quick else "thorough"), cases,
                             timeout=3000)
    if n == 0:
        raise core.ToolError("MC_AddrCodec emitted no case")
    chk.add_tlc(g)
    chk.add("mc_states", g.distinct)
    rm.stage(chk, "tlc-gen")
    obs = chk.path("obs.ndjson")
    core.run_bin(binp, ["addr-obs", cases, obs])
    nr = 3000 if quick else 150000
    robs = chk.path("obs_rand.ndjson")
    core.run_bin(binp, ["addr-rand", nr, chk.seed, robs])
    n_enum = sum(1 for _ in open(obs))
    if n_enum != n:
        raise core.ToolError("harness answered %d of %d cases" % (n_enum, n))
    with open(obs, "a") as f, open(robs) as g2:
        for line in g2:
            f.write(line)
    rm.stage(chk, "observe")
    out, lines = rm.validate(chk, "AddrCheck", obs, shards=4 if quick else 14)
    rm.stage(chk, "tlc-check")
    classify(chk, out["MISMATCH"], lines)
    chk.add("enumerated_cases", n)
    chk.add("random_cases", len(lines) - n)
    chk.cov["exhaustive"] = True
    objs = [json.loads(x) for x in lines[:400000]]
    chk.cov["evaluations"] = len(lines)
    chk.cov["values_roundtripped"] = sum(1 for o in objs if o["ev"] == "Addr")
    chk.cov["strings_parsed"] = sum(1 for o in objs if o["ev"] == "ParseStr")
    chk.cov["strings_accepted_by_zbus"] = sum(1 for o in objs if o["ev"] == "ParseStr" and o["parsed"].get("ok"))
    if not chk.cov["strings_accepted_by_zbus"]:
        raise core.ToolError("vacuous run: zbus accepted none of the random address strings")
    chk.cov["distinct_nontrivial"] = core.distinct_count(
        [o for o in objs if needs_escape(o)], lambda o: json.dumps(o.get("addr") or o.get("s"), sort_keys=True))
    chk.cov["rule"] = ("cases = TLC-enumerated address values (Gen_Addr) + seeded random values + random valid address strings; "
                       "distinct by value / string; non-trivial = some value has a byte outside [-0-9A-Za-z_/.\\*] (must be "
                       "escaped) or the string contains a percent escape")
    picks = [o for o in objs if o["ev"] == "Addr"][:3] + [o for o in objs if o["ev"] == "ParseStr"][:2]
    for o in picks:
        if o["ev"] == "Addr":
            chk.sample({"address": rm.text(o["addr"]), "to_string": o.get("text"), "reparsed": rm.text(o.get("reparse", {}).get("addr"))})
        else:
            chk.sample({"string": o.get("text"), "parsed": rm.text(o["parsed"].get("addr"))})
    if quick:
        chk.notes.append("vsock transport not compiled in the quick tier (needs a second build of zbus); thorough tier builds "
                         "harness/rules with --features vsock")
    chk.assumptions += [
        "address strings: one address (no ';' lists), keys the transports define, no key twice, no empty values",
        "tcp host / bind values are UTF-8 (zbus keeps them as String); all other values range over arbitrary bytes",
        "random strings do not use bind= (documented as unsupported by zbus's reader); values built through Tcp::set_bind are "
        "round-tripped",
        "TLC evaluates AddrCodec.tla correctly",
    ]
    return chk.finish()


def do_replay(chk, binp, path):
    with open(path) as f:
        rp = json.load(f)
    obs = rp["replay"]["observation"]
    case = chk.path("replay_case.ndjson")
    with open(case, "w") as f:
        if obs["ev"] == "ParseStr":
            f.write(json.dumps({"id": 0, "s": obs["s"]}) + "\n")
        else:
            f.write(json.dumps({"id": 0, "addr": obs["addr"]}) + "\n")
    out_p = chk.path("replay_obs.ndjson")
    core.run_bin(binp, ["addr-obs", case, out_p])
    out, lines = rm.validate(chk, "AddrCheck", out_p, shards=1)
    classify(chk, out["MISMATCH"], lines)
    chk.cov["evaluations"] = 1
    o = json.loads(lines[0])
    chk.sample({"string": o.get("text"), "address": rm.text(o.get("addr"))})
    return chk.finish()
