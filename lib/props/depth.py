"""C07: container nesting limits, against spec/Depths.tla (+ DBusWire / GVariantWire reference encodings)."""
import json

import core


def run(pid, tier, replay):
    chk = core.Check(pid, "model_checking", tier)
    wire = core.build("wire", features=("gvariant",))
    if replay:
        rp = json.load(open(replay))
        cases = chk.path("replay_case.ndjson")
        open(cases, "w").write(json.dumps(rp["replay"]["case"]) + "\n")
    else:
        # the counter discipline itself, exhaustively
        mc = core.tlc("mc/MC_Depths.tla", "mc/MC_Depths.cfg", workers=4, coverage=True, timeout=1200)
        if mc.violation:
            raise core.ToolError("MC_Depths: specification violates its own invariants:\n" + mc.violation)
        for act in ("Enter", "Leave"):
            if mc.coverage.get(act, 0) == 0:
                raise core.ToolError("MC_Depths: action %s never taken (vacuous)" % act)
        chk.add_tlc(mc)
        cases = chk.path("cases.ndjson")
        cfg = "gen/Gen_Depths_quick.cfg" if chk.quick else "gen/Gen_Depths_thorough.cfg"
        g, n = core.tlc_generate("gen/Gen_Depths.tla", cfg, cases, timeout=3000)
        chk.add_tlc(g)
        chk.add("enumerated_cases", n)
    obs = chk.path("obs.ndjson")
    core.run_bin(wire, ["obs-depth", cases, obs])
    mism, lines, _ = core.tlc_validate("trace/DepthCheck.tla", "trace/DepthCheck.cfg", obs, shards=8, timeout=1200)
    case_lines = open(cases).read().splitlines()
    for m in mism["MISMATCH"]:
        o = json.loads(lines[m["line"] - 1])
        st = o["stack"]
        key = "%s:%s:a%d-r%d-v%d" % (m["what"], m["detail"].get("fmt"), st.count("a"), st.count("r"), st.count("v"))
        chk.report(key, {"clause": m["what"], "stack": "".join(st), "detail": m["detail"]},
                   {"case": json.loads(case_lines[m["line"] - 1]), "observation": o})
    chk.add("traces_validated_against_impl", len(lines))
    chk.cov["evaluations"] = len(lines) * 4
    objs = [json.loads(x) for x in lines]
    chk.cov["distinct_nontrivial"] = len({"".join(o["stack"]) for o in objs if len(o["stack"]) > 2})
    chk.cov["over_limit_cases"] = sum(1 for o in objs if o["dbus"]["enc"]["outcome"] != "ok")
    chk.cov["exhaustive"] = True
    chk.cov["rule"] = ("nestings = count triples (arrays, structs, variants) from the configured sets around 0/1/31/32/33 and 62..65 total, "
                       "5 orders each, always under a top-level variant, leaf = one byte; each is encoded and its reference encoding decoded in "
                       "D-Bus and GVariant format (4 evaluations per nesting); non-trivial = more than 2 containers")
    for o in objs[:1] + objs[len(objs) // 2:len(objs) // 2 + 1] + objs[-1:]:
        chk.sample({"stack": "".join(o["stack"]), "dbus": o["dbus"], "gv": o.get("gv")})
    chk.assumptions += ["over-limit input for the decoders is produced by the TLA+ reference marshallers (DBusWire / GVariantWire)",
                        "maybes and dict entries are not part of the enumerated nestings (the property statement does not say how they count)"]
    return chk.finish()
