"""C16: the server side of the SASL handshake (spec/Sasl.tla + spec/SaslServer.tla).

  MC        TLC checks SaslServer (every command sequence up to a bound x every configuration) for OkSound, AuthSound,
            RejectedForUnsupported, ErrorForUnknownOrMisplaced, NeverPanic, RightPeerAccepted, and the incremental line
            splitter of Sasl against the function TakeLines for every short byte stream and chunking
  spec->impl Gen_SaslServer enumerates transcripts (x configurations x chunkings); harness/hs renders them to bytes and
            replays them against Builder::socket(..).server(guid).p2p().auth_mechanism(m) over a scripted socket
  impl->spec seeded random transcripts (random hex, long lines, non-UTF-8, bad endings, random chunking)
  decide    spec/trace/SaslServerTrace.tla reads the *bytes* (client stream and server output) and classifies every
            observation: explained / explained only with listed deviations (KNOWN-FINDING) / violated clause / drift
"""
import json
import threading

import core
from props import hs_framing as hf

CLAUSES = {"no-panic", "auth-sound", "rejected-reply", "error-reply", "auth-complete"}


def model_check(chk):
    r = core.tlc("mc/MC_Sasl.tla", "mc/MC_Sasl_quick.cfg" if chk.quick else "mc/MC_Sasl.cfg", coverage=False, workers=4, timeout=3000)
    if r.violation or not r.ok:
        raise core.ToolError("SaslServer.tla violates its own invariants (specification error):\n%s" % (r.violation or r.raw_tail)[:3000])
    if r.distinct < 1000 or r.depth < 3:
        raise core.ToolError("MC_Sasl explored only %d states to depth %d (vacuous)" % (r.distinct, r.depth))
    hf.add_tlc(chk, r)
    core.log("[mc] server %d states in %.1fs" % (r.distinct, r.wall))
    s = core.tlc("mc/MC_Sasl.tla", "mc/MC_SaslSplit.cfg" if chk.quick else "mc/MC_SaslSplit_thorough.cfg", coverage=True, workers=4, timeout=3000)
    if s.violation or not s.ok:
        raise core.ToolError("Sasl.tla: incremental splitter disagrees with TakeLines:\n%s" % (s.violation or s.raw_tail)[:3000])
    hf.check_coverage(s, ["SplStep"], "MC_SaslSplit")
    hf.add_tlc(chk, s)
    with hf._LOCK:
        chk.cov["mc_server_states"] = r.distinct
        chk.cov["mc_splitter_states"] = s.distinct


def classify(chk, mism, lines, origin, seed_info):
    for m in mism:
        obs = json.loads(lines[m["line"] - 1])
        what = m["what"]
        if what == "spec-selfcheck":
            raise core.ToolError("renderer / Sasl.tla parser disagree on an enumerated case: %s" % json.dumps(m)[:1500])
        replay = {"origin": origin, "seed_info": seed_info, "observation": {k: obs[k] for k in ("id", "var", "cfg", "stream", "rel")},
                  "mismatch": {"what": what, "detail": m.get("detail")}}
        if what == "known":
            for d in m["detail"]["devs"]:
                chk.report("dev:" + d, {"deviation": d, "obs": m["detail"]["obs"]}, replay)
        elif what in CLAUSES:
            d = m["detail"]
            last = d["cmds"][min(len(d["replies"]), len(d["cmds"]) - 1)] if d.get("cmds") else {}
            key = "%s:%s:%s" % (what, d["cfg"]["mech"], last.get("k"))
            chk.report(key, {"clause": what, "obs": d}, replay)
        elif what == "drift":
            with hf._LOCK:
                chk.cov["model_drift"] = chk.cov.get("model_drift", 0) + 1
                if chk.cov["model_drift"] <= 10:
                    core.log("MODEL-DRIFT C16: %s" % json.dumps(m)[:700])
                    chk.notes.append("MODEL-DRIFT: " + json.dumps(m.get("detail"))[:300])


def conformance(chk, obs_path, origin, seed_info, shards):
    out, lines, rs = core.tlc_validate("trace/SaslServerTrace.tla", "trace/SaslServerTrace.cfg", obs_path, shards=shards, timeout=3000)
    for r in rs:
        hf.add_tlc(chk, r)
    with hf._LOCK:
        classify(chk, out["MISMATCH"], lines, origin, seed_info)
    hf.add(chk, "traces_validated_against_impl", len(lines))
    hf.add(chk, "evaluations", len(lines))
    return lines


def nontrivial(o):
    # more than a single well-formed line, or split across reads
    return len(o["rel"]) > 1 or o["stream"].count(10) > 1


def run(pid, tier, replay):
    chk = core.Check(pid, "model_checking", tier)
    hf.load_own_known(chk, pid)
    hs = core.build("hs")
    if replay:
        return do_replay(chk, hs, replay)
    quick = chk.quick
    allobs = []

    def enum_part():
        cases = chk.path("cases.ndjson")
        g, n = core.tlc_generate("gen/Gen_SaslServer.tla", "gen/Gen_SaslServer_quick.cfg" if quick else "gen/Gen_SaslServer_thorough.cfg",
                                 cases, timeout=3000, workers=4)
        core.log("[gen] %d transcripts in %.1fs" % (n, g.wall))
        obs = chk.path("obs_enum.ndjson")
        core.run_bin(hs, ["server-enum", cases, obs], timeout=3000)
        lines = conformance(chk, obs, "enum", None, 8)
        with hf._LOCK:
            chk.add_tlc(g)
            chk.add("enumerated_cases", n)
            allobs.extend(lines)

    def rand_part():
        nr = 1500 if quick else 60000
        obs = chk.path("obs_rand.ndjson")
        core.run_bin(hs, ["server-rand", nr, chk.seed, obs], timeout=3000)
        lines = conformance(chk, obs, "rand", {"seed": chk.seed, "n": nr}, 2 if quick else 8)
        with hf._LOCK:
            chk.add("random_transcripts", len(lines))
            allobs.extend(lines)

    hf.run_parallel([lambda: model_check(chk), enum_part, rand_part])
    chk.cov["exhaustive"] = True
    import hashlib
    seen = set()
    objs = []
    for x in allobs:
        o = json.loads(x)
        if nontrivial(o):
            seen.add(hashlib.sha1(json.dumps([o["cfg"], o["stream"], o["rel"]]).encode()).digest())
        if len(objs) < 4 and o["var"] in ("cut", "rand") and len(o["stream"]) < 120:
            objs.append(o)
    chk.cov["distinct_nontrivial"] = len(seen)
    chk.cov["rule"] = ("an observation = (configuration, client byte stream, read split); distinct by content; non-trivial = more than "
                       "one line or split across more than one read")
    for o in objs:
        chk.sample({"cfg": o["cfg"], "stream": bytes(o["stream"]).decode("latin1"), "rel": o["rel"],
                    "written": bytes(o["written"]).decode("latin1"), "outcome": o["outcome"]})
    chk.assumptions += [
        "peer credentials are what ReadHalf::peer_credentials reports (scripted: uid 1000 or unknown)",
        "reply *kinds* and the outcome are compared, never reply texts",
        "TLC evaluates Sasl.tla / SaslServer.tla correctly",
    ]
    return chk.finish()


def do_replay(chk, hs, path):
    with open(path) as f:
        rp = json.load(f)["replay"]
    o = rp["observation"]
    # re-run exactly this byte stream / split / configuration through the real server handshake
    case = chk.path("replay_case.ndjson")
    with open(case, "w") as f:
        f.write(json.dumps({"cfg": o["cfg"], "stream": o["stream"], "rel": o["rel"], "id": o.get("id", 0)}) + "\n")
    obs = chk.path("replay_obs.ndjson")
    core.run_bin(hs, ["server-raw", case, obs])
    conformance(chk, obs, "replay", rp.get("seed_info"), 1)
    chk.sample(json.loads(open(obs).readline()))
    return chk.finish()
