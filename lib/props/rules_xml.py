"""C34: introspection XML documents round-trip through zbus_xml's model (spec/XmlDoc.tla).

  cases   <- TLC enumerates small documents (spec/gen/Gen_Xml.tla, run as mc/MC_XmlDoc so the specification's own laws
             are checked on them); the harness draws random documents with tricky text (& < > " ' newline, non-ASCII)
  observe <- harness/xml: writes the abstract document as XML, Node::from_reader -> node1 (the value under test; fields
             are private, so values are made by reading), node1.to_writer -> xml1, from_reader / TryFrom<&str> again,
             ==, and every value through the public getters; this module parses xml0 and xml1 with Python's strict
             XML parser (xml.etree / expat) into element trees
  decide  <- TLC evaluates spec/trace/XmlCheck.tla: doc2 = doc1, node2 == node1, and tree(xml1) = XmlDoc!Denote(doc1)
"""
import json
import sys
import xml.etree.ElementTree as ET

import core
from props import rules_match as rm


def tree_of(xml_text):
    """Strict parse -> {"tag", "attrs": [{"n", "v": utf-8 bytes}], "kids"}; character data is not part of the format."""
    def conv(e):
        return {"tag": e.tag,
                "attrs": [{"n": k, "v": list(v.encode("utf-8"))} for k, v in sorted(e.attrib.items())],
                "kids": [conv(c) for c in e]}
    try:
        return {"ok": True, "tree": conv(ET.fromstring(xml_text.encode("utf-8")))}
    except ET.ParseError as e:
        return {"ok": False, "err": str(e)}


def add_trees(src, dst, texts):
    """Parse the XML texts strictly and hand TLC the element trees; the texts themselves stay in `texts` (by id)."""
    n = 0
    with open(src) as f, open(dst, "a") as g:
        for line in f:
            if not line.strip():
                continue
            o = json.loads(line)
            o["tree0"] = tree_of(o["xml0"])
            o["tree1"] = tree_of(o["xml1"]) if "xml1" in o else {"ok": False, "err": "nothing written"}
            # the two read-back paths normally agree: do not make TLC parse the same document twice
            if o.get("third", {}).get("ok"):
                o["third"]["same"] = bool(o.get("second", {}).get("ok") and o["third"]["doc"] == o["second"]["doc"])
                if o["third"]["same"]:
                    del o["third"]["doc"]
            o["id"] = len(texts)
            texts.append(o.pop("xml1", ""))
            o.pop("xml0", None)
            g.write(json.dumps(o) + "\n")
            n += 1
    return n


def classify(chk, mism, lines, texts=()):
    rm.tool_clauses(mism, lines)
    for m in mism:
        if m["what"] == "write-denotes":
            # What *another* XML reader makes of the written text goes beyond C34's statement (zbus_xml writes, zbus_xml
            # reads back, values equal): diagnostic only, counted in the evidence, never a verdict.
            chk.add("diagnostic_write_denotes_mismatches", 1)
            continue
        obs = json.loads(lines[m["line"] - 1])
        d = m.get("detail") if isinstance(m.get("detail"), dict) else {}
        rp = {"observation": {"ev": "Xml", "doc": obs["doc"]}, "mismatch": m}
        what = {"clause": m["what"], "detail": rm.text(d), "written": (texts[obs["id"]] if obs["id"] < len(texts) else "")[:600]}
        devs = d["devs"] if "devs" in d else [d.get("dev", "none")]
        if devs == ["none"]:
            chk.report("%s:unexplained" % m["what"], what, rp)
        else:
            # an observation that needs several deviations at once: each must be a listed finding
            for dev in devs:
                chk.report("%s:%s" % (dev, m["what"]), what, rp)


def tricky(o):
    s = json.dumps(o["doc"])
    return any(k in s for k in ("38,", "60,", "62,", "34,", "39,", "10,", "13,", "9,", "195,", "226,"))


def run(pid, tier, replay):
    chk = core.Check(pid, "model_checking", tier)
    rm.local_known(chk, ["C34"])
    binp = rm.build("xml")
    if replay:
        return do_replay(chk, binp, replay)
    rm.stage(chk, "start")
    quick = chk.quick
    rm.stage(chk, "build")
    cases = chk.path("cases.ndjson")
    g, n = core.tlc_generate("mc/MC_XmlDoc.tla", "mc/MC_XmlDoc_gen.cfg", cases, timeout=3000)
    if n == 0:
        raise core.ToolError("MC_XmlDoc emitted no case")
    chk.add_tlc(g)
    chk.add("mc_states", g.distinct)
    rm.stage(chk, "tlc-gen")
    raw = chk.path("obs_raw.ndjson")
    core.run_bin(binp, ["xml-obs", cases, raw])
    obs = chk.path("obs.ndjson")
    open(obs, "w").close()
    texts = []
    if add_trees(raw, obs, texts) != n:
        raise core.ToolError("harness answered fewer lines than the %d cases" % n)
    nr = 800 if quick else 30000
    rraw = chk.path("obs_rand_raw.ndjson")
    core.run_bin(binp, ["xml-rand", nr, chk.seed, rraw])
    add_trees(rraw, obs, texts)
    rm.stage(chk, "observe")
    out, lines = rm.validate(chk, "XmlCheck", obs, shards=4 if quick else 14, tags=("MISMATCH", "NOTE"))
    rm.stage(chk, "tlc-check")
    classify(chk, out["MISMATCH"], lines, texts)
    chk.add("enumerated_cases", n)
    chk.add("random_cases", len(lines) - n)
    chk.cov["exhaustive"] = True
    objs = [json.loads(x) for x in lines]
    chk.cov["evaluations"] = len(lines)
    chk.cov["values_read"] = sum(1 for o in objs if o["first"].get("ok"))
    chk.cov["written_and_read_back_equal"] = sum(1 for o in objs if o.get("second", {}).get("ok") and o["second"].get("eq")
                                                 and o["second"]["doc"] == o["first"]["doc"])
    if chk.cov["written_and_read_back_equal"] == 0:
        raise core.ToolError("vacuous run: no document went through write and read-back")
    notes = {}
    for m in out["NOTE"]:
        notes[m["what"]] = notes.get(m["what"], 0) + 1
    chk.cov["not_judged"] = notes
    if notes:
        # the property is about values; a document zbus_xml reads differently from what the harness meant is just another
        # value under test, but the model of the reader no longer mirrors the code: MODEL-DRIFT, not a violation
        core.log("MODEL-DRIFT C34: %s (zbus_xml read the harness's XML differently than meant / not at all; the values "
                 "it did produce were still checked)" % json.dumps(notes))
        chk.notes.append("MODEL-DRIFT (no verdict): %s" % json.dumps(notes))
    chk.cov["distinct_nontrivial"] = core.distinct_count(
        [o for o in objs if tricky(o) or o["doc"].get("nodes")], lambda o: json.dumps(o["doc"], sort_keys=True))
    chk.cov["rule"] = ("cases = TLC-enumerated documents (Gen_Xml slices) + seeded random documents; distinct by document; "
                       "non-trivial = has child nodes or text that needs XML escaping / is non-ASCII")
    for o in objs[:2] + objs[-2:]:
        chk.sample({"doc": rm.text(o["doc"]), "written": texts[o["id"]][:300], "read_back_equal": o.get("second", {}).get("eq")})
    chk.assumptions += [
        "document values are made by reading XML (zbus_xml's fields are private); the harness's XML for a document is checked "
        "against XmlDoc!Denote with a strict parser before use",
        "names and signatures come from valid-name pools; annotation values and argument names carry the tricky text",
        "Python's xml.etree (expat) is taken as the conforming XML reader for the written text; character data between "
        "elements is ignored",
        "TLC evaluates XmlDoc.tla correctly",
    ]
    return chk.finish()


def do_replay(chk, binp, path):
    with open(path) as f:
        rp = json.load(f)
    doc = rp["replay"]["observation"]["doc"]
    case = chk.path("replay_case.ndjson")
    with open(case, "w") as f:
        f.write(json.dumps({"id": 0, "doc": doc}) + "\n")
    raw = chk.path("replay_raw.ndjson")
    core.run_bin(binp, ["xml-obs", case, raw])
    obs = chk.path("replay_obs.ndjson")
    open(obs, "w").close()
    texts = []
    add_trees(raw, obs, texts)
    out, lines = rm.validate(chk, "XmlCheck", obs, shards=1, tags=("MISMATCH", "NOTE"))
    classify(chk, out["MISMATCH"], lines, texts)
    chk.cov["evaluations"] = 1
    o = json.loads(lines[0])
    chk.sample({"doc": rm.text(o["doc"]), "written": texts[0][:300]})
    return chk.finish()
