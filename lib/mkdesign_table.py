#!/usr/bin/env python3
"""Regenerate the per-property table (section A.6) of DESIGN.md from manifest.d, known_findings.d, evidence and seeded/."""
import glob
import json
import os
import re

V = os.path.dirname(os.path.dirname(os.path.abspath(__file__)))
props = {json.loads(l)["id"]: json.loads(l) for l in open(os.path.join(V, "properties.jsonl"))}
kf = json.load(open(os.path.join(V, "known_findings.json")))["findings"]
seeds = {}
for m in glob.glob(os.path.join(V, "seeded", "*", "meta.json")):
    j = json.load(open(m))
    seeds.setdefault(j.get("property"), []).append((os.path.basename(os.path.dirname(m)), j))
rows = []
for pid in sorted(props):
    mp = os.path.join(V, "manifest.d", pid + ".json")
    if not os.path.exists(mp):
        rows.append("| %s | %s | not claimed | | | |" % (pid, props[pid]["title"]))
        continue
    m = json.load(open(mp))
    ev = {}
    ep = os.path.join(V, "evidence", pid + ".json")
    if os.path.exists(ep):
        ev = json.load(open(ep))
    cov = ev.get("coverage", {})
    known = [f["id"] for f in kf if f["property"] == pid and f.get("status", "known") == "known"]
    fixed = [f["id"] for f in kf if f["property"] == pid and f.get("status") == "fixed"]
    sd = []
    for name, j in seeds.get(pid, []):
        res = j.get("checks", {})
        caught = [c for c, r in res.items() if r.get("exit") == 1]
        sd.append("%s: %s" % (name, "caught by " + ",".join(caught) if caught else "MISSED"))
    rows.append("| %s | %s | %s | states %s, traces/cases %s (%s tier, %.0f s) | known: %s; fixed: %s | %s |" % (
        pid, props[pid]["title"], m["check"]["level_claimed"]["category"],
        cov.get("states", "-"), cov.get("traces_validated_against_impl", cov.get("evaluations", "-")), ev.get("tier", "-"), ev.get("wall_s", 0),
        ", ".join(known) or "-", ", ".join(fixed) or "-", "; ".join(sd) or "-"))
table = ("| id | property | level | last run (from evidence/) | findings | seeded changes |\n|---|---|---|---|---|---|\n" + "\n".join(rows))
p = os.path.join(V, "DESIGN.md")
s = open(p).read()
a, b = "<!-- A6-TABLE-BEGIN -->", "<!-- A6-TABLE-END -->"
if a in s:
    s = re.sub(re.escape(a) + ".*?" + re.escape(b), a + "\n" + table + "\n" + b, s, flags=re.S)
    open(p, "w").write(s)
print(table[:600])
