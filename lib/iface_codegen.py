"""Rust source for the `iface` harness crate from TLC-emitted interface shapes (spec/Shapes.tla).

generate(shapes) -> text of harness/iface/src/generated*.rs: for every shape
  * a struct `I<k>` holding the property values, `#[zbus::interface]` impl (handlers log HStart/HEnd/PGet/PSet
    into crate::sink and return values determined by a digest of their inputs),
  * a `#[zbus::proxy]` trait `I<k>P` (async + blocking proxies),
and index-driven glue (`register`, `prop_values`, `emit_signal`, `proxy_*`) so that the hand-written driver
(main.rs) can work with any program without knowing its types.

The Rust type mapping (same table as the header of Shapes.tla):
  u -> u32, s -> String, (..) -> tuple, aT -> Vec<T>, a{sv} -> HashMap<String, OwnedValue>, v -> OwnedValue
"""
import hashlib
import json
import os


def rty(t):
    k = t["k"]
    if k == "u":
        return "u32"
    if k == "s":
        return "String"
    if k == "v":
        return "OwnedValue"
    if k == "r":
        fs = [rty(f) for f in t["f"]]
        return "(" + ", ".join(fs) + ("," if len(fs) == 1 else "") + ")"
    if k == "a":
        e = t["e"]
        if e["k"] == "e":
            if e["key"]["k"] != "s" or e["val"]["k"] != "v":
                raise ValueError("only a{sv} dictionaries are in the shape space")
            return "HashMap<String, OwnedValue>"
        return "Vec<%s>" % rty(e)
    raise ValueError("type %r is not in the shape space" % (t,))


def out_rty(out):
    kind, ts = out["kind"], out["ts"]
    if kind == "unit":
        return "()"
    if kind == "single":
        return rty(ts[0])
    if kind == "tuple":
        return "(" + ", ".join(rty(t) for t in ts) + ")"
    if kind == "stuple":
        return "((" + ", ".join(rty(t) for t in ts) + "),)"
    if kind == "vec":
        return "Vec<%s>" % rty(ts[0])
    raise ValueError(kind)


def out_abs(out, r="r"):
    """Rust expression: the list of out-arguments of a handler result `r` in abstract form."""
    kind, ts = out["kind"], out["ts"]
    if kind == "unit":
        return "vec![]"
    if kind in ("single", "vec"):
        return "vec![%s.to_abs()]" % r
    if kind == "tuple":
        return "vec![" + ", ".join("%s.%d.to_abs()" % (r, i) for i in range(len(ts))) + "]"
    if kind == "stuple":
        return "vec![%s.0.to_abs()]" % r
    raise ValueError(kind)


def doc_lines(doc, indent="    "):
    out = []
    for line in doc:
        out.append(indent + ("/// " + line if line else "///"))
    return out


def rstr(s):
    return json.dumps(s)


def prop_attr(p, for_getter=True, idx=0):
    """The #[zbus(property...)] attribute.  emits_changed_signal is given on getters only (the macro rejects it
    on setters); the default ("true") is left implicit for every other property so both spellings are used."""
    if not for_getter:
        return "#[zbus(property)]"
    if p["emits"] == "true" and idx % 2 == 0:
        return "#[zbus(property)]"
    return '#[zbus(property(emits_changed_signal = "%s"))]' % p["emits"]


def readable(p):
    return p["access"] in ("read", "readwrite")


def writable(p):
    return p["access"] in ("write", "readwrite")


def gen_iface(s):
    k = s["id"]
    name = s["name"]
    ty = s["rust"]
    L = []
    L.append("// ---------------------------------------------------------------- %s" % name)
    L.append("// (one module per interface: the proxy macro defines types named after the signals)")
    L.append("pub mod m%d {" % k)
    L.append("use super::*;")
    L.append("pub struct %s {" % ty)
    for p in s["props"]:
        L.append("    pub %s: Mutex<%s>," % (p["rust"], rty(p["ty"])))
    L.append("}")
    L.append("impl %s {" % ty)
    L.append("    pub fn new() -> Self {")
    L.append("        %s {" % ty)
    for p in s["props"]:
        L.append("            %s: Mutex::new(Make::make(sink::seed_of(%s, %s)))," % (p["rust"], rstr(name), rstr(p["name"])))
    L.append("        }")
    L.append("    }")
    L.append("    pub fn prop_values(&self) -> Vec<(&'static str, J)> {")
    L.append("        vec![" + ", ".join("(%s, self.%s.lock().unwrap().to_abs())" % (rstr(p["name"]), p["rust"]) for p in s["props"]) + "]")
    L.append("    }")
    L.append("}")
    L.append("#[zbus::interface(name = %s)]" % rstr(name))
    L.append("impl %s {" % ty)
    for m in s["methods"]:
        L += doc_lines(m["doc"])
        params = "".join(", a%d: %s" % (i, rty(t)) for i, t in enumerate(m["ins"]))
        recv = "&mut self" if m["mut"] else "&self"
        ort = out_rty(m["out"])
        ret = "zbus::fdo::Result<%s>" % ort if m["fallible"] else ort
        arrow = "" if (ret == "()") else " -> %s" % ret
        L.append("    %sfn %s(%s%s)%s {" % ("async " if m["async"] else "", m["rust"], recv, params, arrow))
        args = ", ".join("a%d.to_abs()" % i for i in range(len(m["ins"])))
        L.append("        let h = sink::start(%s, %s, vec![%s]);" % (rstr(name), rstr(m["name"]), args))
        if m["async"]:
            L.append("        sink::yield_once().await;")
        L.append("        let r: %s = %s;" % (ort, "()" if ort == "()" else "Make::make(h)"))
        if m["fallible"]:
            L.append("        if let Some(e) = sink::fail(%s, %s, h) {" % (rstr(name), rstr(m["name"])))
            L.append("            return Err(e);")
            L.append("        }")
        L.append("        sink::end(%s, %s, %s);" % (rstr(name), rstr(m["name"]), out_abs(m["out"])))
        L.append("        %s" % ("Ok(r)" if m["fallible"] else "r"))
        L.append("    }")
    for idx, p in enumerate(s["props"]):
        t = rty(p["ty"])
        a = "async " if p["async"] else ""
        if readable(p):
            L += doc_lines(p["doc"])
            L.append("    " + prop_attr(p, True, idx))
            L.append("    %sfn %s(&self) -> %s {" % (a, p["rust"], t))
            L.append("        let v = self.%s.lock().unwrap().clone();" % p["rust"])
            L.append("        sink::pget(%s, %s, v.to_abs());" % (rstr(name), rstr(p["name"])))
            L.append("        v")
            L.append("    }")
        if writable(p):
            if not readable(p):
                L += doc_lines(p["doc"])
            L.append("    " + prop_attr(p, False))
            recv = "&mut self" if p["mutset"] else "&self"
            L.append("    %sfn set_%s(%s, v: %s) {" % (a, p["rust"], recv, t))
            L.append("        sink::pset(%s, %s, v.to_abs());" % (rstr(name), rstr(p["name"])))
            L.append("        *self.%s.lock().unwrap() = v;" % p["rust"])
            L.append("    }")
    for g in s["signals"]:
        L += doc_lines(g["doc"])
        params = "".join(", a%d: %s" % (i, rty(t)) for i, t in enumerate(g["args"]))
        L.append("    #[zbus(signal)]")
        L.append("    async fn %s(emitter: &SignalEmitter<'_>%s) -> zbus::Result<()>;" % (g["rust"], params))
    L.append("}")
    # proxy
    L.append('#[zbus::proxy(interface = %s, default_path = "/verif/o%d", default_service = "org.verif.Srv", gen_blocking = true)]' % (rstr(name), k))
    L.append("pub trait %sP {" % ty)
    for m in s["methods"]:
        params = "".join(", a%d: %s" % (i, rty(t)) for i, t in enumerate(m["ins"]))
        L.append("    fn %s(&self%s) -> zbus::Result<%s>;" % (m["rust"], params, out_rty(m["out"])))
    for idx, p in enumerate(s["props"]):
        t = rty(p["ty"])
        if readable(p):
            L.append("    " + prop_attr(p, True, idx))
            L.append("    fn %s(&self) -> zbus::Result<%s>;" % (p["rust"], t))
        if writable(p):
            L.append("    #[zbus(property)]")
            L.append("    fn set_%s(&self, v: %s) -> zbus::Result<()>;" % (p["rust"], t))
    for g in s["signals"]:
        params = "".join(", a%d: %s" % (i, rty(t)) for i, t in enumerate(g["args"]))
        L.append("    #[zbus(signal)]")
        L.append("    fn %s(&self%s) -> zbus::Result<()>;" % (g["rust"], params))
    L.append("}")
    L.append("}")
    return L


def gen_proxy_glue(shapes, blocking):
    """proxy_call / proxy_get / proxy_set / proxy_signals for the async or the blocking proxies."""
    aw = "" if blocking else ".await"
    asy = "" if blocking else "async "
    sfx = "blocking" if blocking else "async"
    conn = "&zbus::blocking::Connection" if blocking else "&zbus::Connection"
    L = []

    def build(s):
        pt = "m%d::%sPProxy%s" % (s["id"], s["rust"], "Blocking" if blocking else "")
        return ("%s::builder(conn).path(path.to_string())?.cache_properties(zbus::proxy::CacheProperties::No).build()%s?"
                % (pt, aw))

    # method calls
    L.append("pub %sfn proxy_call_%s(conn: %s, k: usize, path: &str, member: &str, args: &[J]) -> zbus::Result<Result<Vec<J>, J>> {" % (asy, sfx, conn))
    L.append("    match (k, member) {")
    for s in shapes:
        for m in s["methods"]:
            L.append("        (%d, %s) => {" % (s["id"], rstr(m["name"])))
            L.append("            let p = %s;" % build(s))
            for i, t in enumerate(m["ins"]):
                L.append("            let a%d: %s = Abs::from_abs(&args[%d]);" % (i, rty(t), i))
            call = "p.%s(%s)%s" % (m["rust"], ", ".join("a%d" % i for i in range(len(m["ins"]))), aw)
            L.append("            Ok(match %s {" % call)
            L.append("                Ok(r) => { let _ = &r; Ok(%s) }" % out_abs(m["out"]))
            L.append("                Err(e) => Err(sink::err_name(&e)),")
            L.append("            })")
            L.append("        }")
    L.append('        _ => panic!("harness: no method {member} on interface {k}"),')
    L.append("    }")
    L.append("}")
    # property get
    L.append("pub %sfn proxy_get_%s(conn: %s, k: usize, path: &str, prop: &str) -> zbus::Result<Result<J, J>> {" % (asy, sfx, conn))
    L.append("    match (k, prop) {")
    for s in shapes:
        for p in s["props"]:
            if not readable(p):
                continue
            L.append("        (%d, %s) => {" % (s["id"], rstr(p["name"])))
            L.append("            let p = %s;" % build(s))
            L.append("            Ok(match p.%s()%s { Ok(v) => Ok(v.to_abs()), Err(e) => Err(sink::err_name(&e)) })" % (p["rust"], aw))
            L.append("        }")
    L.append('        _ => panic!("harness: no readable property {prop} on interface {k}"),')
    L.append("    }")
    L.append("}")
    # property set
    L.append("pub %sfn proxy_set_%s(conn: %s, k: usize, path: &str, prop: &str, value: &J) -> zbus::Result<Result<(), J>> {" % (asy, sfx, conn))
    L.append("    match (k, prop) {")
    for s in shapes:
        for p in s["props"]:
            if not writable(p):
                continue
            L.append("        (%d, %s) => {" % (s["id"], rstr(p["name"])))
            L.append("            let p = %s;" % build(s))
            L.append("            let v: %s = Abs::from_abs(value);" % rty(p["ty"]))
            L.append("            Ok(match p.set_%s(v)%s { Ok(()) => Ok(()), Err(e) => Err(sink::err_name(&e)) })" % (p["rust"], aw))
            L.append("        }")
    L.append('        _ => panic!("harness: no writable property {prop} on interface {k}"),')
    L.append("    }")
    L.append("}")
    # signal subscription: a stream / iterator of abstract argument lists
    if blocking:
        L.append("pub fn proxy_signals_blocking(conn: %s, k: usize, path: &str, signal: &str) -> zbus::Result<Box<dyn Iterator<Item = Result<Vec<J>, String>> + Send>> {" % conn)
    else:
        L.append("pub async fn proxy_signals_async(conn: %s, k: usize, path: &str, signal: &str) -> zbus::Result<Pin<Box<dyn Stream<Item = Result<Vec<J>, String>> + Send>>> {" % conn)
    L.append("    match (k, signal) {")
    for s in shapes:
        for g in s["signals"]:
            L.append("        (%d, %s) => {" % (s["id"], rstr(g["name"])))
            L.append("            let p = %s;" % build(s))
            L.append("            let st = p.receive_%s()%s?;" % (g["rust"], aw))
            fields = ", ".join("a.a%d.to_abs()" % i for i in range(len(g["args"])))
            if g["args"]:
                body = "st.map(|it| it.args().map(|a| vec![%s]).map_err(|e| e.to_string()))" % fields
            else:
                # the macro generates no args() accessor for a signal without arguments
                body = "st.map(|_it| Ok(vec![]))"
            L.append("            Ok(Box::%s(%s))" % ("new" if blocking else "pin", body))
            L.append("        }")
    L.append('        _ => panic!("harness: no signal {signal} on interface {k}"),')
    L.append("    }")
    L.append("}")
    return L


def generate(shapes):
    shapes = sorted(shapes, key=lambda s: s["id"])
    canon = json.dumps([{k: v for k, v in s.items() if k != "sigs"} for s in shapes], sort_keys=True)
    h = hashlib.sha1(canon.encode()).hexdigest()[:16]
    L = []
    L.append("// @generated by lib/iface_codegen.py from TLC-emitted shapes (spec/gen/Gen_Shapes.tla).  DO NOT EDIT.")
    L.append("#![allow(clippy::all, unused_variables, unused_imports, unused_mut, dead_code, unreachable_patterns)]")
    L.append("use std::collections::HashMap;")
    L.append("use std::pin::Pin;")
    L.append("use std::sync::Mutex;")
    L.append("")
    L.append("use futures_util::{Stream, StreamExt};")
    L.append("use serde_json::Value as J;")
    L.append("use zbus::object_server::SignalEmitter;")
    L.append("use zbus::zvariant::OwnedValue;")
    L.append("")
    L.append("use crate::sink::{self, Abs, Make};")
    L.append("")
    L.append("pub const SHAPES_HASH: &str = %s;" % rstr(h))
    L.append("pub const NIFACE: usize = %d;" % len(shapes))
    L.append("")
    for s in shapes:
        L += gen_iface(s)
        L.append("")
    # registration
    L.append("pub async fn register(os: &zbus::ObjectServer, k: usize, path: &str) -> zbus::Result<bool> {")
    L.append("    match k {")
    for s in shapes:
        L.append("        %d => os.at(path.to_string(), m%d::%s::new()).await," % (s["id"], s["id"], s["rust"]))
    L.append('        _ => panic!("harness: no interface {k}"),')
    L.append("    }")
    L.append("}")
    # server-side ground truth of the property values (not through D-Bus)
    L.append("pub async fn prop_values(os: &zbus::ObjectServer, k: usize, path: &str) -> zbus::Result<Vec<(&'static str, J)>> {")
    L.append("    match k {")
    for s in shapes:
        L.append("        %d => Ok(os.interface::<_, m%d::%s>(path.to_string()).await?.get().await.prop_values())," % (s["id"], s["id"], s["rust"]))
    L.append('        _ => panic!("harness: no interface {k}"),')
    L.append("    }")
    L.append("}")
    # signal emission through the generated <Iface>Signals trait on InterfaceRef
    L.append("pub async fn emit_signal(os: &zbus::ObjectServer, k: usize, path: &str, signal: &str, args: &[J]) -> zbus::Result<()> {")
    L.append("    match (k, signal) {")
    for s in shapes:
        for g in s["signals"]:
            L.append("        (%d, %s) => {" % (s["id"], rstr(g["name"])))
            L.append("            let ir = os.interface::<_, m%d::%s>(path.to_string()).await?;" % (s["id"], s["rust"]))
            for i, t in enumerate(g["args"]):
                L.append("            let a%d: %s = Abs::from_abs(&args[%d]);" % (i, rty(t), i))
            L.append("            m%d::%sSignals::%s(&ir%s).await" % (s["id"], s["rust"], g["rust"], "".join(", a%d" % i for i in range(len(g["args"])))))
            L.append("        }")
    L.append('        _ => panic!("harness: no signal {signal} on interface {k}"),')
    L.append("    }")
    L.append("}")
    L.append("")
    L += gen_proxy_glue(shapes, False)
    L.append("")
    L += gen_proxy_glue(shapes, True)
    L.append("")
    return "\n".join(L), h


def write_if_changed(path, text):
    """Returns True if the file was (re)written.  Leaving an identical file untouched keeps cargo from rebuilding."""
    if os.path.exists(path):
        with open(path) as f:
            if f.read() == text:
                return False
    with open(path, "w") as f:
        f.write(text)
    return True


if __name__ == "__main__":
    import sys
    shapes = [json.loads(l) for l in open(sys.argv[1]) if l.strip()]
    text, h = generate(shapes)
    changed = write_if_changed(sys.argv[2], text)
    print("shapes=%d hash=%s %s" % (len(shapes), h, "written" if changed else "unchanged"))
