#!/bin/sh
# run lib/seedtest.py for every seeded/<name> that has no recorded check result yet (sequentially)
cd "$(dirname "$0")/.."
for d in seeded/*/; do
  n=$(basename $d)
  python3 - "$d" <<'PY' || continue
import json,sys,os
m=json.load(open(os.path.join(sys.argv[1],'meta.json')))
sys.exit(0 if not m.get('checks') else 1)
PY
  echo "== $n"
  python3 lib/seedtest.py seeded/$n $EXTRA 2>&1 | tail -3
done
